package c03

import (
	"bytes"
	"fmt"

	"verif/seq/fw"
	"verif/seq/props/c04"
)

// Size extremes: deterministic families of inputs that grow to the largest UDP
// payload (65 507 bytes) — deepest nesting, most options, longest values — run
// for termination and stack depth. Families that carry domain names stay at or
// below 512 bytes (decoding cost of pathological names is property C09's
// subject). The observer runs in its shallow configuration (depth 3, 400
// calls): every top-level method still traverses the whole nested structure.

const maxUDP = 65507

func be16(n int) []byte { return []byte{byte(n >> 8), byte(n)} }

func opt6(code int, val []byte) []byte {
	b := make([]byte, 0, 4+len(val))
	b = append(b, be16(code)...)
	b = append(b, be16(len(val))...)
	return append(b, val...)
}

// nest6 nests containers (code, fixed part) cyclically, inside out, while the
// whole message stays within size.
func nest6(size int, hdr []byte, levels ...struct {
	code  int
	fixed []byte
}) []byte {
	inner := []byte{}
	for d := 0; ; d++ {
		lv := levels[d%len(levels)]
		if len(hdr)+4+len(lv.fixed)+len(inner) > size || len(lv.fixed)+len(inner) > 0xffff {
			break
		}
		inner = opt6(lv.code, append(append([]byte{}, lv.fixed...), inner...))
	}
	return append(append([]byte{}, hdr...), inner...)
}

type lvl = struct {
	code  int
	fixed []byte
}

func fixedBytes(n int, fill byte) []byte { return bytes.Repeat([]byte{fill}, n) }

func iaprefixFixed() []byte {
	b := make([]byte, 25)
	b[3], b[7], b[8] = 10, 20, 64
	b[9] = 0x20
	return b
}

// relayNest wraps inner in as many relay levels as fit; extra is appended to each level's options.
func relayNest(size int, inner []byte, extra []byte) []byte {
	cur := inner
	for {
		if 34+4+len(cur)+len(extra) > size || len(cur) > 0xffff {
			return cur
		}
		next := append(relayHdr(12), opt6(9, cur)...)
		cur = append(next, extra...)
	}
}

// repeat6 appends as many copies of unit as fit after hdr.
func repeat6(size int, hdr, unit []byte) []byte {
	n := (size - len(hdr)) / len(unit)
	return append(append([]byte{}, hdr...), bytes.Repeat(unit, n)...)
}

// within6 builds hdr + one option `code` whose value is prefix + as many units as fit (<= 65535).
func within6(size int, hdr []byte, code int, prefix, unit []byte) []byte {
	room := size - len(hdr) - 4 - len(prefix)
	if room > 0xffff-len(prefix) {
		room = 0xffff - len(prefix)
	}
	n := room / len(unit)
	return append(append([]byte{}, hdr...), opt6(code, append(append([]byte{}, prefix...), bytes.Repeat(unit, n)...))...)
}

type family struct {
	name  string
	e     *entry
	build func(size int) []byte
	small bool // label-bearing: fixed small size, not scaled
}

func v6Families() []family {
	iana := lvl{3, fixedBytes(12, 1)}
	iata := lvl{4, fixedBytes(4, 1)}
	iaaddr := lvl{5, fixedBytes(24, 2)}
	iapd := lvl{25, fixedBytes(12, 3)}
	iaprefix := lvl{26, iaprefixFixed()}
	fourRD := lvl{97, nil}
	vend := lvl{17, []byte{0, 0, 4, 0xf7}}
	h := hdrSolicit
	hr := msgHdr(7)
	fs := []family{
		{"v6/IA_NA nested in IA_NA (16 bytes per level)", epV6, func(s int) []byte { return nest6(s, hr, iana) }, false},
		{"v6/IA_TA nested in IA_TA (8 bytes per level)", epV6, func(s int) []byte { return nest6(s, hr, iata) }, false},
		{"v6/IAADDR nested in IAADDR (28 bytes per level)", epV6, func(s int) []byte { return nest6(s, hr, iaaddr) }, false},
		{"v6/IA_NA>IAADDR alternating", epV6, func(s int) []byte { return nest6(s, hr, iaaddr, iana) }, false},
		{"v6/IA_PD nested in IA_PD", epV6, func(s int) []byte { return nest6(s, hr, iapd) }, false},
		{"v6/IA_PD>IAPREFIX alternating", epV6, func(s int) []byte { return nest6(s, hr, iaprefix, iapd) }, false},
		{"v6/4RD nested in 4RD (4 bytes per level)", epV6, func(s int) []byte { return nest6(s, hr, fourRD) }, false},
		{"v6/IA_NA>IA_PD>IAADDR>IAPREFIX>4RD>vendor-opts cycling", epV6, func(s int) []byte { return nest6(s, hr, vend, fourRD, iaprefix, iaaddr, iapd, iana) }, false},
		{"v6/relay nested in relay (38 bytes per level), inner solicit", epV6, func(s int) []byte { return relayNest(s, append([]byte{}, h...), nil) }, false},
		{"v6/relay nested in relay, interface-id + remote-id at every level", epV6, func(s int) []byte {
			return relayNest(s, append(append([]byte{}, h...), opt6(1, []byte{0, 3, 0, 1, 2, 0, 0, 0, 0, 1})...), append(opt6(18, []byte("Ethernet1:2020")), opt6(37, []byte{0, 0, 0x75, 0x71, 'E', 't', 'h', 'e', 'r', 'n', 'e', 't', '3', '/', '1', '/', '2'})...))
		}, false},
		{"v6/relay nested in relay without inner message (innermost relay has no relay-msg)", epV6, func(s int) []byte { return relayNest(s, relayHdr(12), nil) }, false},
		{"v6/relay chain of depth 64 around maximal IA_NA nesting", epV6, func(s int) []byte { return relayNest(s, nest6(s-64*38, hr, iana), nil) }, false},
		{"v6/maximal count of zero-length options (code 14)", epV6, func(s int) []byte { return repeat6(s, h, opt6(14, nil)) }, false},
		{"v6/maximal count of zero-length unknown options (code 224)", epV6, func(s int) []byte { return repeat6(s, h, opt6(224, nil)) }, false},
		{"v6/maximal count of IA_NA options", epV6, func(s int) []byte { return repeat6(s, hr, opt6(3, fixedBytes(12, 1))) }, false},
		{"v6/maximal count of IA_NA each with one IAADDR", epV6, func(s int) []byte {
			return repeat6(s, hr, opt6(3, append(fixedBytes(12, 1), opt6(5, fixedBytes(24, 2))...)))
		}, false},
		{"v6/maximal count of client-id options", epV6, func(s int) []byte { return repeat6(s, h, opt6(1, []byte{0, 3, 0, 1, 2, 0, 0, 0, 0, 1})) }, false},
		{"v6/maximal count of vendor-class + vendor-opts options (ZTP strings)", epV6, func(s int) []byte {
			return repeat6(s, h, append(opt6(16, append([]byte{0, 0, 4, 0xf7, 0, 5}, "1271-"...)), opt6(17, append([]byte{0, 0, 4, 0xf7}, opt6(1, []byte("Arista;"))...))...))
		}, false},
		{"v6/maximal count of status-code options", epV6, func(s int) []byte { return repeat6(s, hr, opt6(13, []byte{0, 0})) }, false},
		{"v6/one IA_NA holding the maximal count of IAADDR", epV6, func(s int) []byte { return within6(s, hr, 3, fixedBytes(12, 1), opt6(5, fixedBytes(24, 2))) }, false},
		{"v6/one IA_PD holding the maximal count of IAPREFIX", epV6, func(s int) []byte { return within6(s, hr, 25, fixedBytes(12, 1), opt6(26, iaprefixFixed())) }, false},
		{"v6/vendor-opts with the maximal count of zero-length sub-options", epV6, func(s int) []byte { return within6(s, h, 17, []byte{0, 0, 0x81, 0x19}, opt6(1, nil)) }, false},
		{"v6/vendor-class with the maximal count of zero-length items", epV6, func(s int) []byte { return within6(s, h, 16, []byte{0, 0, 0, 9}, []byte{0, 0}) }, false},
		{"v6/user-class with the maximal count of one-byte items", epV6, func(s int) []byte { return within6(s, h, 15, nil, []byte{0, 1, 'u'}) }, false},
		{"v6/boot-file-param with the maximal count of zero-length items", epV6, func(s int) []byte { return within6(s, hr, 60, nil, []byte{0, 0}) }, false},
		{"v6/ORO with the maximal count of codes", epV6, func(s int) []byte { return within6(s, h, 6, nil, []byte{0, 59}) }, false},
		{"v6/DNS with the maximal count of servers", epV6, func(s int) []byte { return within6(s, hr, 23, nil, fixedBytes(16, 0x20)) }, false},
		{"v6/NTP with the maximal count of server-address sub-options", epV6, func(s int) []byte { return within6(s, hr, 56, nil, opt6(1, fixedBytes(16, 0x20))) }, false},
		{"v6/client-arch with the maximal count of types", epV6, func(s int) []byte { return within6(s, h, 61, nil, []byte{0, 7}) }, false},
		{"v6/4RD with the maximal count of map rules", epV6, func(s int) []byte {
			return within6(s, hr, 97, nil, opt6(98, append([]byte{24, 48, 16, 0x80, 192, 0, 2, 0}, fixedBytes(16, 0x20)...)))
		}, false},
		{"v6/one unknown option with a maximal value", epV6, func(s int) []byte { return within6(s, h, 224, nil, []byte{0xab}) }, false},
		{"v6/boot-file-url with a maximal value", epV6, func(s int) []byte { return within6(s, hr, 59, nil, []byte{'u'}) }, false},
		{"v6/client-id (opaque DUID) with a maximal value", epV6, func(s int) []byte { return within6(s, h, 1, []byte{0, 9}, []byte{0xcd}) }, false},
		{"v6/relay with a maximal interface-id", epV6, func(s int) []byte {
			return within6(s, append(relayHdr(12), opt6(9, h)...), 18, nil, []byte{'i'})
		}, false},
		{"v6/relay with a maximal remote-id", epV6, func(s int) []byte {
			return within6(s, append(relayHdr(12), opt6(9, h)...), 37, []byte{0, 0, 0, 9}, []byte{'r'})
		}, false},
		{"v6/DHCPv4-message option holding a maximal DHCPv4 packet", epV6, func(s int) []byte {
			room := s - 8
			if room > 0xffff {
				room = 0xffff
			}
			return append(msgHdr(20), opt6(87, v4Repeat(room, 12, nil))...)
		}, false},
		{"v6/MessageFromBytes: IA_NA nesting", epV6Msg, func(s int) []byte { return nest6(s, hr, iana) }, false},
		{"v6/RelayMessageFromBytes: relay nesting", epV6Relay, func(s int) []byte { return relayNest(s, append([]byte{}, h...), nil) }, false},
		{"v6/ParseOption(IA_NA): IA_NA nesting", epParseOption(3), func(s int) []byte { return nest6(s, fixedBytes(12, 1), iana) }, false},
		{"v6/ParseOption(relay-msg): relay nesting", epParseOption(9), func(s int) []byte { return relayNest(s, append([]byte{}, h...), nil) }, false},
		{"v6/ParseOption(vendor-opts): maximal sub-option count", epParseOption(17), func(s int) []byte { return append([]byte{0, 0, 4, 0xf7}, bytes.Repeat(opt6(1, nil), (s-4)/4)...) }, false},
		{"v6/DUIDFromBytes: maximal opaque / EN / LL", epDUID, func(s int) []byte { return append([]byte{0, 2, 0, 0, 4, 0xf7}, fixedBytes(s-6, 0x55)...) }, false},
		{"v6/DUIDFromBytes: maximal link-layer", epDUID, func(s int) []byte { return append([]byte{0, 3, 0, 1}, fixedBytes(s-4, 0x55)...) }, false},
	}
	// label-bearing families: <= 512 bytes
	lab := func(name string, e *entry, wrap func(l []byte) []byte) {
		for _, v := range labelExtremes() {
			v := v
			fs = append(fs, family{"v6/" + name + ": " + v.name, e, func(int) []byte { return wrap(v.b) }, true})
		}
	}
	lab("domain-search-list", epV6, func(l []byte) []byte { return append(msgHdr(7), opt6(24, l)...) })
	lab("FQDN", epV6, func(l []byte) []byte { return append(msgHdr(7), opt6(39, append([]byte{1}, l...))...) })
	lab("NTP server FQDN sub-option", epV6, func(l []byte) []byte { return append(msgHdr(7), opt6(56, opt6(3, l))...) })
	lab("labels", epLabels, func(l []byte) []byte { return l })
	return fs
}

// labelExtremes returns name lists of at most 500 bytes.
func labelExtremes() []named {
	var out []named
	// 63-octet labels up to a 255-octet name, twice
	{
		var n []byte
		for i := 0; i < 3; i++ {
			n = append(n, 63)
			n = append(n, fixedBytes(63, 'a')...)
		}
		n = append(n, 61)
		n = append(n, fixedBytes(61, 'b')...)
		n = append(n, 0)
		out = append(out, named{"255-octet name of 63-octet labels, twice (512 bytes)", append(append([]byte{}, n...), n...)})
	}
	// 250 one-octet labels
	{
		n := bytes.Repeat([]byte{1, 'x'}, 250)
		out = append(out, named{"250 one-octet labels in one name (501 bytes)", append(n, 0)})
	}
	// 250 one-label names
	out = append(out, named{"166 one-label names (498 bytes)", bytes.Repeat([]byte{1, 'y', 0}, 166)})
	// many pointers to one name
	{
		n := []byte{3, 'f', 'o', 'o', 0}
		for len(n) < 498 {
			n = append(n, 0xc0, 0)
		}
		out = append(out, named{"one name followed by 247 pointers to it (499 bytes)", n})
	}
	// pointer chain: each pointer points at the previous pointer
	{
		n := []byte{1, 'z', 0}
		for len(n) < 498 {
			p := len(n) - 2
			if len(n) == 3 {
				p = 0
			}
			n = append(n, 0xc0|byte(p>>8), byte(p))
		}
		out = append(out, named{"pointer chain, each pointer to the previous one (499 bytes)", n})
	}
	// self pointer and forward pointer
	out = append(out, named{"pointer to itself", []byte{0xc0, 0}}, named{"pointer loop of two", []byte{0xc0, 2, 0xc0, 0}},
		named{"label then pointer to the label (loop through a label)", []byte{1, 'a', 0xc0, 0}},
		named{"labels followed by 240 pointers into a loop", append([]byte{1, 'a', 0xc0, 0}, bytes.Repeat([]byte{0xc0, 0}, 240)...)})
	return out
}

// v4Repeat builds prefix + copies of option `code` with value `chunk` (nil: zero-length) + End, within size.
func v4Repeat(size int, code byte, chunk []byte) []byte {
	b := c04.Prefix()
	b[0] = 2
	unit := append([]byte{code, byte(len(chunk))}, chunk...)
	n := (size - 241) / len(unit)
	b = append(b, bytes.Repeat(unit, n)...)
	return append(b, 0xff)
}

func v4Families() []family {
	var fs []family
	type cc struct {
		code  byte
		name  string
		chunk []byte
	}
	route := []byte{24, 192, 168, 1, 10, 0, 0, 1}
	chunks := []cc{
		{12, "host name", fixedBytes(255, 'h')},
		{60, "class identifier (ZTP prefix)", append([]byte("Juniper-"), fixedBytes(247, '-')...)},
		{60, "class identifier (Arista;)", bytes.Repeat([]byte("Arista;"), 36)},
		{6, "DNS servers", fixedBytes(252, 8)},
		{3, "routers", fixedBytes(252, 10)},
		{121, "classless routes", bytes.Repeat(route, 31)},
		{82, "relay agent information (zero-length circuit ids)", bytes.Repeat([]byte{1, 0}, 127)},
		{82, "relay agent information (circuit id Ethernet...)", bytes.Repeat(append([]byte{1, 14}, "Ethernet3/17/1"...), 15)},
		{77, "user class (zero-length items)", fixedBytes(255, 0)},
		{77, "user class (one-byte items)", bytes.Repeat([]byte{1, 'u'}, 127)},
		{124, "VIVC (Cisco, empty data)", bytes.Repeat([]byte{0, 0, 0, 9, 0}, 51)},
		{124, "VIVC (Cisco, SN/PID)", bytes.Repeat(append([]byte{0, 0, 0, 9, 12}, "SN:1;PID:2;x"...), 15)},
		{55, "parameter request list", fixedBytes(255, 1)},
		{93, "client architecture", fixedBytes(254, 0)},
		{61, "client identifier", fixedBytes(255, 0x61)},
		{43, "vendor specific", fixedBytes(255, 0x2b)},
		{51, "lease time", []byte{0, 0, 1, 0}},
		{53, "message type", []byte{2}},
		{1, "subnet mask", []byte{255, 255, 255, 0}},
		{255 - 1, "option 254", fixedBytes(255, 0xfe)},
	}
	for _, c := range chunks {
		c := c
		fs = append(fs, family{fmt.Sprintf("v4/option %d (%s) repeated with maximal chunks", c.code, c.name), epV4, func(s int) []byte { return v4Repeat(s, c.code, c.chunk) }, false})
		fs = append(fs, family{fmt.Sprintf("v4/option %d (%s) repeated zero-length", c.code, c.name), epV4, func(s int) []byte { return v4Repeat(s, c.code, nil) }, false})
	}
	fs = append(fs,
		family{"v4/maximal count of pad options", epV4, func(s int) []byte {
			b := c04.Prefix()
			return append(append(b, make([]byte, s-241)...), 0xff)
		}, false},
		family{"v4/maximal tail after End", epV4, func(s int) []byte {
			b := append(c04.Prefix(), 0x35, 1, 2, 0xff)
			return append(b, fixedBytes(s-len(b), 0x52)...)
		}, false},
		family{"v4/every code 1..254 cycling, one-byte values", epV4, func(s int) []byte {
			b := c04.Prefix()
			b[0] = 2
			for c := 1; len(b)+4 <= s; c = c%254 + 1 {
				b = append(b, byte(c), 1, byte(c))
			}
			return append(b, 0xff)
		}, false},
		family{"v4/Options.FromBytes: every code cycling", epV4Opts, func(s int) []byte {
			var b []byte
			for c := 1; len(b)+3 <= s; c = c%254 + 1 {
				b = append(b, byte(c), 1, byte(c))
			}
			return b
		}, false},
	)
	for _, v := range labelExtremes() {
		v := v
		if len(v.b) > 500 {
			continue
		}
		fs = append(fs, family{"v4/domain search (119): " + v.name, epV4, func(int) []byte {
			b := c04.Prefix()
			b[0] = 2
			for rest := v.b; len(rest) > 0; {
				n := len(rest)
				if n > 255 {
					n = 255
				}
				b = append(b, 119, byte(n))
				b = append(b, rest[:n]...)
				rest = rest[n:]
			}
			return append(b, 0xff)
		}, true})
	}
	// typed decoders on maximal values
	for _, t := range typedRegistry() {
		if t.pkg != "dhcpv4" && t.pkg != "iana" {
			continue
		}
		e := typedEntry(t)
		for _, fill := range []byte{0x00, 0x01, 0x20, 0xff} {
			fill := fill
			fs = append(fs, family{fmt.Sprintf("v4/%s on a maximal run of %02x", e.name, fill), e, func(s int) []byte { return fixedBytes(s, fill) }, false})
		}
	}
	return fs
}

func runExtremes(r *runner, ord *int64) {
	// The property statement quantifies the read-only uses over accepted inputs of
	// up to 4096 bytes (the servers' read size); larger inputs are decoded only.
	const useLimit = 4096
	sizes := []int{1024, useLimit, maxUDP}
	if r.c.Thorough() {
		sizes = []int{512, 1024, 2048, useLimit, 16384, 32768, maxUDP}
	}
	type xc struct {
		f    family
		name string
		in   []byte
	}
	var cases []xc
	maxSmall := 0
	for _, f := range append(v6Families(), v4Families()...) {
		if f.small {
			in := f.build(0)
			if len(in) > maxSmall {
				maxSmall = len(in)
			}
			cases = append(cases, xc{f, f.name, in})
			if len(in) > 1 {
				cases = append(cases, xc{f, f.name + " (cut by 1)", in[:len(in)-1]})
			}
			continue
		}
		for _, s := range sizes {
			in := f.build(s)
			if len(in) > maxUDP {
				panic(fmt.Sprintf("c03: family %q built %d bytes", f.name, len(in)))
			}
			cases = append(cases, xc{f, fmt.Sprintf("%s @%d bytes", f.name, len(in)), in})
			if s == maxUDP {
				cases = append(cases, xc{f, fmt.Sprintf("%s @%d bytes (cut by 1)", f.name, len(in)-1), in[:len(in)-1]})
			}
		}
	}
	b0 := *ord
	par := fw.Workers() / 2
	if par < 1 {
		par = 1
	}
	r.each(int64(len(cases)), par, r.lite, func(w *worker, i int64) {
		c := cases[i]
		c.f.e.runOpt(w, "c:"+c.name, b0+i, c.in, len(c.in) <= useLimit)
	})
	*ord += int64(len(cases))
	var names []string
	for _, f := range append(v6Families(), v4Families()...) {
		names = append(names, f.name)
	}
	r.c.Scope("c:size-extremes", "families", len(names), "sizes", sizes, "cases", len(cases), "label_bearing_max_bytes", maxSmall,
		"read_only_uses", "on accepted inputs of at most 4096 bytes (the bound in the property's quantifier); larger inputs are decoded only",
		"observer", "shallow configuration: nesting depth 3, 400 calls per value, niladic methods only")
	r.c.Extra("extreme_families", names)
}
