package c03

// Perturbations of a valid byte string: every truncation point, every
// single-byte substitution from a small value set at every offset, and every
// length field set to {0, n-1, n+1, max}. The length fields are located by two
// small structural walkers written for this check (they only have to find the
// offsets in *valid* corpus encodings; they share no code with the library).

type lenField struct {
	off, width, val int
}

func u16(b []byte, off int) int { return int(b[off])<<8 | int(b[off+1]) }

// labelLenFields records the length octet of every plain label in b[off:end].
func labelLenFields(b []byte, off, end int, out *[]lenField) {
	for p := off; p < end; {
		l := int(b[p])
		switch {
		case l == 0:
			p++
		case l&0xc0 != 0:
			p += 2
		default:
			*out = append(*out, lenField{p, 1, l})
			p += 1 + l
		}
	}
}

// itemLenFields records the 16-bit length prefix of every item in b[off:end].
func itemLenFields(b []byte, off, end int, out *[]lenField) {
	for p := off; p+2 <= end; {
		l := u16(b, p)
		*out = append(*out, lenField{p, 2, l})
		p += 2 + l
	}
}

// v4OptLenFields walks a DHCPv4 options area b[off:end].
func v4OptLenFields(b []byte, off, end int, out *[]lenField) {
	for p := off; p < end; {
		code := b[p]
		if code == 0 {
			p++
			continue
		}
		if code == 255 || p+1 >= end {
			return
		}
		l := int(b[p+1])
		*out = append(*out, lenField{p + 1, 1, l})
		vs, ve := p+2, p+2+l
		if ve > end {
			ve = end
		}
		switch code {
		case 82: // RFC 3046 sub-options
			for q := vs; q+1 < ve; {
				sl := int(b[q+1])
				*out = append(*out, lenField{q + 1, 1, sl})
				q += 2 + sl
			}
		case 77: // RFC 3004 user classes
			for q := vs; q < ve; {
				sl := int(b[q])
				*out = append(*out, lenField{q, 1, sl})
				q += 1 + sl
			}
		case 124: // RFC 3925 vendor classes
			for q := vs; q+4 < ve; {
				sl := int(b[q+4])
				*out = append(*out, lenField{q + 4, 1, sl})
				q += 5 + sl
			}
		case 119:
			labelLenFields(b, vs, ve, out)
		}
		p = ve
	}
}

// v4LenFields locates the length fields of a DHCPv4 packet.
func v4LenFields(b []byte) []lenField {
	var out []lenField
	if len(b) > 240 {
		v4OptLenFields(b, 240, len(b), &out)
	}
	return out
}

// v6OptLenFields walks a DHCPv6 option list b[off:end]. space: 0 = the DHCPv6
// option space, 1 = NTP sub-options, 2 = vendor sub-options (opaque values).
func v6OptLenFields(b []byte, off, end, space, depth int, out *[]lenField) {
	for p := off; p+4 <= end; {
		code, l := u16(b, p), u16(b, p+2)
		*out = append(*out, lenField{p + 2, 2, l})
		vs, ve := p+4, p+4+l
		if ve > end {
			ve = end
		}
		if depth < 12 {
			sub := func(skip, sp int) {
				if vs+skip <= ve {
					v6OptLenFields(b, vs+skip, ve, sp, depth+1, out)
				}
			}
			switch {
			case space == 1 && code == 3:
				labelLenFields(b, vs, ve, out)
			case space != 0:
			case code == 3 || code == 25:
				sub(12, 0)
			case code == 4:
				sub(4, 0)
			case code == 5:
				sub(24, 0)
			case code == 26:
				sub(25, 0)
			case code == 17:
				sub(4, 2)
			case code == 56:
				sub(0, 1)
			case code == 97:
				sub(0, 0)
			case code == 9:
				v6MsgLenFields(b, vs, ve, depth+1, out)
			case code == 87:
				if vs+240 < ve {
					v4OptLenFields(b, vs+240, ve, out)
				}
			case code == 15 || code == 60:
				itemLenFields(b, vs, ve, out)
			case code == 16:
				if vs+4 <= ve {
					itemLenFields(b, vs+4, ve, out)
				}
			case code == 24:
				labelLenFields(b, vs, ve, out)
			case code == 39:
				if vs+1 <= ve {
					labelLenFields(b, vs+1, ve, out)
				}
			}
		}
		p = ve
	}
}

func v6MsgLenFields(b []byte, off, end, depth int, out *[]lenField) {
	if off >= end {
		return
	}
	h := 4
	if b[off] == 12 || b[off] == 13 {
		h = 34
	}
	if off+h <= end {
		v6OptLenFields(b, off+h, end, 0, depth, out)
	}
}

// v6LenFields locates the length fields of a DHCPv6 message at all nesting levels.
func v6LenFields(b []byte) []lenField {
	var out []lenField
	v6MsgLenFields(b, 0, len(b), 0, &out)
	return out
}

// offsets returns the perturbed offsets of an n-byte base: all of them up to
// 640 bytes, else the first 448 and the last 64.
func offsets(n int) []int {
	o := make([]int, 0, n)
	for i := 0; i < n; i++ {
		if n <= 640 || i < 448 || i >= n-64 {
			o = append(o, i)
		}
	}
	return o
}

// perturb enumerates the perturbations of base. Every emitted slice is fresh.
func perturb(base []byte, lfs []lenField, subs []byte, emit func(kind string, b []byte)) {
	emit("valid", append([]byte(nil), base...))
	offs := offsets(len(base))
	for _, t := range offs {
		emit("truncation", append([]byte(nil), base[:t]...))
	}
	for _, off := range offs {
		for _, x := range subs {
			if base[off] == x {
				continue
			}
			b := append([]byte(nil), base...)
			b[off] = x
			emit("substitution", b)
		}
	}
	for _, lf := range lfs {
		max := 0xff
		if lf.width == 2 {
			max = 0xffff
		}
		for _, nv := range []int{0, lf.val - 1, lf.val + 1, max} {
			if nv < 0 || nv > max || nv == lf.val {
				continue
			}
			b := append([]byte(nil), base...)
			if lf.width == 2 {
				b[lf.off], b[lf.off+1] = byte(nv>>8), byte(nv)
			} else {
				b[lf.off] = byte(nv)
			}
			emit("length-field", b)
		}
	}
}
