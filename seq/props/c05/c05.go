// Package c05: DHCPv6 decoding accepts exactly well-formed messages and reads
// the RFC values. Bounded-exhaustive enumeration of option areas, and of every
// truncation / length perturbation of every corpus option instance at top level
// and inside every container, against the independent reference decoder v6ref.
package c05

import (
	"bytes"
	"fmt"
	"os"
	"runtime/debug"
	"sort"
	"strings"
	"sync"
	"sync/atomic"

	"github.com/insomniacslk/dhcp/dhcpv6"
	"verif/seq/adapt"
	"verif/seq/corpus6"
	"verif/seq/fw"
	"verif/seq/props/c02"
	"verif/seq/ref/v6ref"
)

func goTest(in []byte) string {
	return fmt.Sprintf(`func TestReplay(t *testing.T) {
	in, _ := hex.DecodeString(%q)
	m, err := dhcpv6.FromBytes(in)
	t.Logf("err=%%v", err)
	if err == nil {
		t.Logf("decoded: %%s\nre-encoded: %%x", m.Summary(), m.ToBytes())
	}
}`, fw.Hex(in))
}

func goTestOpt(code uint16, p []byte) string {
	return fmt.Sprintf(`func TestReplay(t *testing.T) {
	p, _ := hex.DecodeString(%q)
	o, err := dhcpv6.ParseOption(dhcpv6.OptionCode(%d), p)
	t.Logf("err=%%v", err)
	if err == nil {
		t.Logf("decoded: %%s\nre-encoded: %%x", o, o.ToBytes())
	}
}`, fw.Hex(p), code)
}

var (
	unadMu sync.Mutex
	unad   = map[string]bool{}
)

// unspecified-case counters: lock-free on the hot path (fw.Ctx.Unspecified takes a mutex)
var unspecN = func() map[string]*atomic.Int64 {
	m := map[string]*atomic.Int64{}
	for _, k := range v6ref.UnspecifiedClasses() {
		m[k] = new(atomic.Int64)
	}
	for _, k := range v6ref.MayRejectClasses() {
		m["may-reject: "+k] = new(atomic.Int64)
		m["may-reject(library rejects): "+k] = new(atomic.Int64)
	}
	return m
}()

func noteUnspecified(c *fw.Ctx, class string) {
	if ctr, ok := unspecN[class]; ok {
		ctr.Add(1)
		return
	}
	c.Unspecified(class, 1)
}

func flushUnspecified(c *fw.Ctx) {
	for k, ctr := range unspecN {
		if n := ctr.Swap(0); n > 0 {
			c.Unspecified(k, n)
		}
	}
}

func noteUnadapted(l []string) {
	unadMu.Lock()
	for _, s := range l {
		unad[s] = true
	}
	unadMu.Unlock()
}

// culprit names the innermost option of an accepted reference tree that the
// library's ParseOption refuses on its own (diagnosis only, for fingerprints).
func culprit(m *v6ref.Msg) string {
	name := ""
	var visit func(l []*v6ref.Node)
	visit = func(l []*v6ref.Node) {
		for _, n := range l {
			var err error
			fw.Safe(func() { _, err = dhcpv6.ParseOption(dhcpv6.OptionCode(n.Code), append([]byte{}, n.Raw...)) })
			if err == nil {
				continue
			}
			name = n.Name
			switch n.Name {
			case "IA_NA", "IA_TA", "IA_PD", "IAADDR", "IAPREFIX", "4RD":
				visit(n.Children)
			}
			if n.Inner != nil {
				visit(n.Inner.Options)
			}
			return
		}
	}
	visit(m.Options)
	if name == "" {
		return "framing-or-header"
	}
	return name
}

// Check runs one input through library and reference and reports disagreement.
// It returns true when both accept (the trees were compared).
func Check(c *fw.Ctx, scope string, order int64, in []byte) bool {
	var lm dhcpv6.DHCPv6
	var lerr error
	cp := append([]byte(nil), in...)
	if pv, st := fw.Safe(func() { lm, lerr = dhcpv6.FromBytes(cp) }); pv != nil {
		c.Report(fw.Violation{Fingerprint: "dhcpv6.FromBytes|panic|" + fw.PanicSite(st), Order: order, Scope: scope, Input: fw.Hex(in),
			Observed: fmt.Sprintf("panic: %v at %s", pv, st), Expected: "value or error", GoTest: goTest(in)})
		return false
	}
	rv, why := v6ref.VerdictOfMessage(in)
	switch rv {
	case v6ref.Reject:
		if lerr == nil {
			c.Report(fw.Violation{Fingerprint: "dhcpv6.FromBytes|verdict|" + why, Order: order, Scope: scope, Input: fw.Hex(in),
				Observed: "library accepts: " + oneLine(lm), Expected: "error (reference decoder: REJECT, " + why + ")",
				Explain: "the byte string is not a well-formed DHCPv6 message (" + why + ") but decoding succeeds", GoTest: goTest(in)})
		}
		otherEntryPoints(c, scope, order, in, false, nil)
		return false
	case v6ref.Unspecified:
		noteUnspecified(c, why)
		stability(c, scope, order, in, lm, lerr)
		return false
	case v6ref.MayReject:
		if lerr != nil {
			noteUnspecified(c, "may-reject(library rejects): "+why)
			return false
		}
		noteUnspecified(c, "may-reject: "+why)
	default:
		if lerr != nil {
			rt, _, _ := v6ref.DecodeMessage(in)
			cls := culprit(rt)
			c.Report(fw.Violation{Fingerprint: "dhcpv6.FromBytes|verdict|lib-rejects-wellformed:" + cls, Order: order, Scope: scope, Input: fw.Hex(in),
				Observed: fmt.Sprintf("library: err=%v", lerr), Expected: "accepted; reference reading: " + rt.String(),
				Explain: "header complete, options tile exactly and every known option satisfies its layout, yet decoding fails", GoTest: goTest(in)})
			return false
		}
	}
	rt, _, _ := v6ref.DecodeMessage(in)
	v6ref.DedupORO(rt)
	var lt *v6ref.Msg
	if pv, st := fw.Safe(func() { lt = adapt.TreeOfMessageWith(lm, adapt.V6Opts{DedupORO: true}) }); pv != nil {
		c.Report(fw.Violation{Fingerprint: "adapter|panic|" + fw.PanicSite(st), Order: order, Scope: scope, Input: fw.Hex(in),
			Observed: fmt.Sprintf("panic walking the decoded value: %v at %s", pv, st), Expected: "a well-formed value", GoTest: goTest(in)})
		return false
	}
	if u := adapt.V6Unadapted(lt); len(u) > 0 {
		noteUnadapted(u)
		return false
	}
	if ok, path, desc := v6ref.Equal(lt, rt); !ok {
		c.Report(fw.Violation{Fingerprint: "dhcpv6.FromBytes|field|" + v6ref.PathClass(path), Order: order, Scope: scope, Input: fw.Hex(in),
			Observed: fmt.Sprintf("%s: library %s", path, desc) + "\nlibrary tree:   " + lt.String(), Expected: "reference tree: " + rt.String(),
			Explain: "a decoded field differs from what the RFC layout says the bytes mean (library value vs reference value)", GoTest: goTest(in)})
		return true
	}
	if rv == v6ref.Accept {
		otherEntryPoints(c, scope, order, in, true, rt)
	}
	// history: the program edits the message it received, then the same datagram is decoded again;
	// the second result is a function of the bytes alone
	var lm2 dhcpv6.DHCPv6
	var lerr2 error
	var lt2 *v6ref.Msg
	if pv, st := fw.Safe(func() {
		c02.PoisonAll(lm)
		lm2, lerr2 = dhcpv6.FromBytes(append([]byte(nil), in...))
		if lerr2 == nil {
			lt2 = adapt.TreeOfMessageWith(lm2, adapt.V6Opts{DedupORO: true})
		}
	}); pv != nil {
		c.Report(fw.Violation{Fingerprint: "dhcpv6.FromBytes|panic-after-editing-an-earlier-result|" + fw.PanicSite(st), Order: order, Scope: scope, Input: fw.Hex(in),
			Observed: fmt.Sprintf("panic: %v at %s", pv, st), Expected: "value or error", GoTest: goTest(in)})
		return true
	}
	if lerr2 != nil {
		c.Report(fw.Violation{Fingerprint: "dhcpv6.FromBytes|second-decode-differs|verdict", Order: order, Scope: scope, Input: fw.Hex(in),
			Observed: fmt.Sprintf("second decode of the same bytes: err=%v", lerr2), Expected: "accepted, as the first time", GoTest: goTest(in)})
	} else if ok, path, desc := v6ref.Equal(lt2, rt); !ok {
		c.Report(fw.Violation{Fingerprint: "dhcpv6.FromBytes|second-decode-differs|" + v6ref.PathClass(path), Order: order, Scope: scope, Input: fw.Hex(in),
			Observed: fmt.Sprintf("%s: library %s", path, desc) + "\nsecond decode: " + lt2.String(), Expected: "reference tree: " + rt.String(),
			Explain: "messages decoded by separate calls share state: editing every field of the first result (and adding an option to it) changed what decoding the same bytes returns",
			GoTest:  goTest(in)})
	}
	return true
}

// otherEntryPoints: MessageFromBytes and RelayMessageFromBytes are exported decoders too (the DHCPv6 client reads the
// socket through MessageFromBytes). The one that fits the message type must give the verdict and the value FromBytes
// gives; the other one must refuse the input.
func otherEntryPoints(c *fw.Ctx, scope string, order int64, in []byte, accept bool, rt *v6ref.Msg) {
	relay := len(in) > 0 && (in[0] == 12 || in[0] == 13)
	var mm *dhcpv6.Message
	var rm *dhcpv6.RelayMessage
	var merr, rerr error
	if pv, st := fw.Safe(func() {
		mm, merr = dhcpv6.MessageFromBytes(append([]byte(nil), in...))
		rm, rerr = dhcpv6.RelayMessageFromBytes(append([]byte(nil), in...))
	}); pv != nil {
		c.Report(fw.Violation{Fingerprint: "dhcpv6.MessageFromBytes/RelayMessageFromBytes|panic|" + fw.PanicSite(st), Order: order, Scope: scope, Input: fw.Hex(in),
			Observed: fmt.Sprintf("panic: %v at %s", pv, st), Expected: "value or error"})
		return
	}
	check := func(name string, fits bool, err error, val dhcpv6.DHCPv6) {
		want := accept && fits
		if (err == nil) != want {
			exp := "error"
			if want {
				exp = "accepted (FromBytes accepts it and the message type fits this decoder)"
			}
			c.Report(fw.Violation{Fingerprint: "dhcpv6." + name + "|verdict-differs-from-FromBytes", Order: order, Scope: scope, Input: fw.Hex(in),
				Observed: fmt.Sprintf("%s: err=%v", name, err), Expected: exp,
				Explain: "every exported decoder accepts exactly the well-formed messages of its kind"})
			return
		}
		if want && rt != nil {
			var lt *v6ref.Msg
			if pv, _ := fw.Safe(func() { lt = adapt.TreeOfMessageWith(val, adapt.V6Opts{DedupORO: true}) }); pv != nil || len(adapt.V6Unadapted(lt)) > 0 {
				return
			}
			if ok, path, desc := v6ref.Equal(lt, rt); !ok {
				c.Report(fw.Violation{Fingerprint: "dhcpv6." + name + "|field|" + v6ref.PathClass(path), Order: order, Scope: scope, Input: fw.Hex(in),
					Observed: fmt.Sprintf("%s: library %s", path, desc), Expected: "reference tree: " + rt.String()})
			}
		}
	}
	var mv, rvv dhcpv6.DHCPv6
	if mm != nil {
		mv = mm
	}
	if rm != nil {
		rvv = rm
	}
	check("MessageFromBytes", !relay, merr, mv)
	check("RelayMessageFromBytes", relay, rerr, rvv)
}

func oneLine(m dhcpv6.DHCPv6) string {
	s := ""
	fw.Safe(func() { s = adapt.TreeOfMessage(m).String() })
	if len(s) > 300 {
		s = s[:300] + "…"
	}
	return s
}

// stability is the whole oracle for Unspecified inputs: deterministic verdict,
// and if accepted, a deterministic value whose encoding is repeatable.
func stability(c *fw.Ctx, scope string, order int64, in []byte, lm dhcpv6.DHCPv6, lerr error) {
	var lm2 dhcpv6.DHCPv6
	var lerr2 error
	if pv, st := fw.Safe(func() { lm2, lerr2 = dhcpv6.FromBytes(append([]byte(nil), in...)) }); pv != nil {
		c.Report(fw.Violation{Fingerprint: "dhcpv6.FromBytes|panic|" + fw.PanicSite(st), Order: order, Scope: scope, Input: fw.Hex(in),
			Observed: fmt.Sprintf("panic: %v", pv), Expected: "value or error", GoTest: goTest(in)})
		return
	}
	if (lerr == nil) != (lerr2 == nil) {
		c.Report(fw.Violation{Fingerprint: "dhcpv6.FromBytes|determinism|verdict", Order: order, Scope: scope, Input: fw.Hex(in),
			Observed: fmt.Sprintf("first err=%v second err=%v", lerr, lerr2), Expected: "same verdict on the same bytes", GoTest: goTest(in)})
		return
	}
	if lerr != nil {
		return
	}
	var b1, b2, b3 []byte
	if pv, st := fw.Safe(func() { b1 = lm.ToBytes(); b2 = lm.ToBytes(); b3 = lm2.ToBytes() }); pv != nil {
		c.Report(fw.Violation{Fingerprint: "dhcpv6.ToBytes|panic|" + fw.PanicSite(st), Order: order, Scope: scope, Input: fw.Hex(in),
			Observed: fmt.Sprintf("panic re-encoding an accepted value: %v at %s", pv, st), Expected: "bytes", GoTest: goTest(in)})
		return
	}
	if !bytes.Equal(b1, b2) || !bytes.Equal(b1, b3) {
		c.Report(fw.Violation{Fingerprint: "dhcpv6.FromBytes|determinism|encoding", Order: order, Scope: scope, Input: fw.Hex(in),
			Observed: fmt.Sprintf("%x / %x / %x", b1, b2, b3), Expected: "identical encodings of the same accepted input", GoTest: goTest(in)})
	}
}

// CheckOption compares dhcpv6.ParseOption with v6ref.DecodeOption on one value.
func CheckOption(c *fw.Ctx, scope string, order int64, code uint16, p []byte) bool {
	var lo dhcpv6.Option
	var lerr error
	if pv, st := fw.Safe(func() { lo, lerr = dhcpv6.ParseOption(dhcpv6.OptionCode(code), append([]byte(nil), p...)) }); pv != nil {
		c.Report(fw.Violation{Fingerprint: "dhcpv6.ParseOption|panic|" + fw.PanicSite(st), Order: order, Scope: scope, Input: fmt.Sprintf("code=%d payload=%x", code, p),
			Observed: fmt.Sprintf("panic: %v at %s", pv, st), Expected: "value or error", GoTest: goTestOpt(code, p)})
		return false
	}
	rn, rv, why := v6ref.DecodeOption(code, p)
	switch rv {
	case v6ref.Reject:
		if lerr == nil {
			c.Report(fw.Violation{Fingerprint: "dhcpv6.ParseOption|verdict|" + why, Order: order, Scope: scope, Input: fmt.Sprintf("code=%d payload=%x", code, p),
				Observed: "library accepts: " + adapt.TreeOfOption(lo).String(), Expected: "error (reference decoder: REJECT, " + why + ")",
				Explain: "the value violates the option's layout rules but ParseOption succeeds", GoTest: goTestOpt(code, p)})
		}
		return false
	case v6ref.Unspecified:
		noteUnspecified(c, why)
		return false
	case v6ref.MayReject:
		if lerr != nil {
			return false
		}
	default:
		if lerr != nil {
			c.Report(fw.Violation{Fingerprint: "dhcpv6.ParseOption|verdict|lib-rejects-wellformed:" + v6ref.OptionName(code), Order: order, Scope: scope, Input: fmt.Sprintf("code=%d payload=%x", code, p),
				Observed: fmt.Sprintf("library: err=%v", lerr), Expected: "accepted; reference reading: " + rn.String(), GoTest: goTestOpt(code, p)})
			return false
		}
	}
	v6ref.DedupOROTree(rn)
	lt := adapt.TreeOfOptionWith(lo, adapt.V6Opts{DedupORO: true})
	if strings.HasPrefix(lt.Name, adapt.UnadaptedPrefix) {
		noteUnadapted([]string{lt.Name})
		return false
	}
	probe := &v6ref.Msg{Options: []*v6ref.Node{lt}}
	if u := adapt.V6Unadapted(probe); len(u) > 0 {
		noteUnadapted(u)
		return false
	}
	if ok, path, desc := v6ref.EqualNode(lt, rn); !ok {
		c.Report(fw.Violation{Fingerprint: "dhcpv6.ParseOption|field|" + v6ref.PathClass(path), Order: order, Scope: scope, Input: fmt.Sprintf("code=%d payload=%x", code, p),
			Observed: fmt.Sprintf("%s: library %s", path, desc) + "\nlibrary tree:   " + lt.String(), Expected: "reference tree: " + rn.String(), GoTest: goTestOpt(code, p)})
	}
	return true
}

// ---------------------------------------------------------------- (b) structure

func tlv(code uint16, l int, val []byte) []byte {
	b := make([]byte, 0, 4+len(val))
	b = append(b, byte(code>>8), byte(code), byte(l>>8), byte(l))
	return append(b, val...)
}

type level struct {
	name   string
	code   uint16
	prefix []byte // fixed part of the container before its nested options
}

// context is a nesting of containers (outermost first) below a message header.
type context struct {
	name   string
	hdr    []byte
	levels []level
}

// assemble builds hdr + container(…container(option)…) with consistent lengths.
// tail[k] is appended after the nested TLV inside level k (k == len(levels): after
// everything, at message level 0 is outermost container...). lenOverride, when
// non-nil, replaces the length field of the given depth (depth == len(levels)
// is the instance option itself) without touching any byte of the values.
type spec struct {
	code    uint16
	payload []byte
	ownLen  int            // -1: len(payload)
	lvlLen  map[int]int    // level index -> forced length field
	inTail  map[int][]byte // level index -> bytes appended inside that container after the nested option
	msgTail []byte
}

func (x *context) assemble(s spec) []byte {
	l := s.ownLen
	if l < 0 {
		l = len(s.payload)
	}
	cur := tlv(s.code, l, s.payload)
	for i := len(x.levels) - 1; i >= 0; i-- {
		lv := x.levels[i]
		val := append(append([]byte{}, lv.prefix...), cur...)
		val = append(val, s.inTail[i]...)
		ll := len(val)
		if f, ok := s.lvlLen[i]; ok {
			ll = f
		}
		cur = tlv(lv.code, ll&0xffff, val)
	}
	out := append(append([]byte{}, x.hdr...), cur...)
	return append(out, s.msgTail...)
}

var relayHdr = func() []byte {
	b := make([]byte, 34)
	b[0], b[1] = 12, 1
	copy(b[2:18], corpus6.AddrA)
	copy(b[18:34], corpus6.AddrB)
	return b
}()

var plainHdr = []byte{0x01, 0x01, 0x02, 0x03}

// containerLevels derives each container's fixed prefix from the library's own
// encoding of the container around a probe option (the baseline only has to be
// *some* byte string; its validity is judged by the reference decoder).
var levelProblems sync.Map // container name -> hex of its encoding

func containerLevels() map[string]level {
	out := map[string]level{}
	probe := &dhcpv6.OptStatusCode{StatusCode: 0, StatusMessage: "p"}
	ptlv := tlv(13, 3, probe.ToBytes())
	for _, ct := range corpus6.Containers() {
		w := ct.Wrap(&dhcpv6.OptStatusCode{StatusCode: 0, StatusMessage: "p"})
		if w == nil {
			continue
		}
		wb := w.ToBytes()
		if !bytes.HasSuffix(wb, ptlv) {
			// the library's encoding of a container around an option does not end with that option: reported by Run as a
			// violation of the wire layout; the bytes are used as the container's fixed part so that the enumeration can go on
			levelProblems.Store(ct.Name, fmt.Sprintf("%x", wb))
			out[ct.Name] = level{ct.Name, ct.Code, append([]byte{}, wb...)}
			continue
		}
		out[ct.Name] = level{ct.Name, ct.Code, append([]byte{}, wb[:len(wb)-len(ptlv)]...)}
	}
	return out
}

func contexts() []context {
	lv := containerLevels()
	var out []context
	out = append(out, context{"top", plainHdr, nil}, context{"top(relay)", relayHdr, nil})
	names := make([]string, 0, len(lv))
	for n := range lv {
		names = append(names, n)
	}
	sort.Strings(names)
	for _, n := range names {
		out = append(out, context{"in " + n, plainHdr, []level{lv[n]}})
	}
	out = append(out,
		context{"in IA_NA>IAADDR", plainHdr, []level{lv["IA_NA"], lv["IAADDR"]}},
		context{"in IA_PD>IAPREFIX", plainHdr, []level{lv["IA_PD"], lv["IAPREFIX"]}},
		context{"in relay-msg>IA_NA (relay)", relayHdr, []level{lv["relay-msg"], lv["IA_NA"]}},
	)
	return out
}

func offsets(n int) []int {
	var o []int
	for i := 0; i < n; i++ {
		if n <= 72 || i < 56 || i >= n-12 {
			o = append(o, i)
		}
	}
	return o
}

// mutations enumerates every perturbed message of one instance in one context.
func mutations(x *context, code uint16, p []byte, emit func(kind string, b []byte)) {
	base := spec{code: code, payload: p, ownLen: -1}
	emit("valid", x.assemble(base))
	// A: consistent truncations of the value, value + 1 octet
	for k := 0; k < len(p); k++ {
		if len(p) > 80 && k > 60 && k < len(p)-12 {
			continue
		}
		s := base
		s.payload = p[:k]
		emit("value-truncated", x.assemble(s))
	}
	for _, extra := range []byte{0x00, 0xff} {
		s := base
		s.payload = append(append([]byte{}, p...), extra)
		emit("value+1", x.assemble(s))
	}
	// B: the message cut at every offset (lengths untouched: overruns at every level)
	full := x.assemble(base)
	for k := 0; k < len(full); k++ {
		if len(full) > 160 && k > 100 && k < len(full)-40 {
			continue
		}
		emit("message-truncated", full[:k])
	}
	// C: own length field -1/+1/0/ffff, bytes untouched (containers sized to the bytes)
	for _, l := range []int{len(p) - 1, len(p) + 1, 0, 0xffff} {
		if l < 0 || l == len(p) {
			continue
		}
		s := base
		s.ownLen = l
		emit("own-length", x.assemble(s))
	}
	// D: container length fields, trailing octets inside containers and after the message
	for i := range x.levels {
		// true length of level i's value
		sub := context{hdr: nil, levels: x.levels[i:]}
		true_ := len(sub.assemble(base)) - 4
		for _, l := range []int{true_ - 1, true_ + 1, 0, 0xffff, true_ - 4} {
			if l < 0 || l == true_ {
				continue
			}
			s := base
			s.lvlLen = map[int]int{i: l}
			emit("container-length", x.assemble(s))
			s.msgTail = []byte{0}
			emit("container-length+msg-tail", x.assemble(s))
		}
		for _, t := range [][]byte{{0}, {0, 0}, {0, 0, 0}, {0, 0, 0, 0}, {0xff, 0xff, 0, 0}} {
			s := base
			s.inTail = map[int][]byte{i: t}
			emit("trailing-in-container", x.assemble(s))
		}
	}
	for _, t := range [][]byte{{0}, {0, 0}, {0, 0, 0}, {0, 0, 0, 0}, {0, 8, 0, 2}, {0xff}} {
		s := base
		s.msgTail = t
		emit("trailing-after-message", x.assemble(s))
	}
	// E: every inner octet / 16-bit field -1/+1/0/max with consistent framing
	for _, off := range offsets(len(p)) {
		v := p[off]
		for _, nv := range []byte{v - 1, v + 1, 0, 0xff} {
			if nv == v {
				continue
			}
			q := append([]byte{}, p...)
			q[off] = nv
			s := base
			s.payload = q
			emit("inner-octet", x.assemble(s))
		}
		if off+1 < len(p) {
			w := uint16(p[off])<<8 | uint16(p[off+1])
			for _, nw := range []uint16{w - 1, w + 1, 0, 0xffff} {
				if nw == w || (nw>>8 == uint16(p[off]) || byte(nw) == p[off+1]) {
					continue // single-octet changes are covered above
				}
				q := append([]byte{}, p...)
				q[off], q[off+1] = byte(nw>>8), byte(nw)
				s := base
				s.payload = q
				emit("inner-u16", x.assemble(s))
			}
		}
	}
}

// ---------------------------------------------------------------- Run

func pow(a, n int) int64 {
	r := int64(1)
	for i := 0; i < n; i++ {
		r *= int64(a)
	}
	return r
}

func areas(c *fw.Ctx, scope string, hdr []byte, alpha []byte, maxLen int, ord *int64) {
	var total int64
	for l := 0; l <= maxLen; l++ {
		n := pow(len(alpha), l)
		ll, b0 := l, *ord+total
		c.Range(n, func(i int64) {
			in := make([]byte, len(hdr)+ll)
			copy(in, hdr)
			x := i
			for k := 0; k < ll; k++ {
				in[len(hdr)+k] = alpha[x%int64(len(alpha))]
				x /= int64(len(alpha))
			}
			if Check(c, scope, b0+i, in) {
				c.Nontrivial(1)
				if i%200003 == 11 {
					c.Sample(map[string]any{"scope": scope, "options_area": fw.Hex(in[len(hdr):])})
				}
			}
		})
		total += n
	}
	c.Scope(scope, "header", fw.Hex(hdr), "alphabet", fw.Hex(alpha), "max_len", maxLen, "cases", total)
	*ord += total
}

func Run(c *fw.Ctx) {
	// the live heap is tiny and the allocation rate huge: collect less often
	if os.Getenv("GOGC") == "" {
		defer debug.SetGCPercent(debug.SetGCPercent(800))
	}
	c.SetRule("inputs are enumerated injectively (every string over the alphabet up to the bound after each header; every truncation/perturbation of every corpus instance in every context once); non-trivial = accepted by both the reference decoder and the library, so the typed value trees were actually compared field by field")
	// binding of the option table to the source tree
	if tab, err := adapt.ExtractV6OptionTable(); err != nil {
		c.Extra("option_table_error", err.Error())
		// coverage bookkeeping only: not being able to list the parsed codes is not a property violation
	} else {
		cov := adapt.CompareV6Tables(tab)
		un := cov.Uncovered
		if un == nil {
			un = []string{}
		}
		c.Extra("uncovered_option_types", un)
		c.Extra("option_types_lost_from_switch", cov.Lost)
		c.Extra("option_table", map[string]any{"source_dir": tab.Dir, "parse_option_codes": tab.Top, "ntp_suboption_codes": tab.NTP,
			"how": "measured on the compiled library: ParseOption(code, empty value) is an error or not the generic option", "source_switch_codes": tab.SourceTop, "source_note": tab.SourceNote})
	}
	var ord int64

	// (a) all option areas over the byte alphabets after both headers
	alpha := []byte{0x00, 0x01, 0x02, 0x03, 0x08, 0x0e, 0xff}
	maxA := 8
	if c.Thorough() {
		maxA = 10
	}
	maxR := maxA
	if c.Thorough() {
		maxR = 9
	}
	areas(c, "a:option-areas(msg)", plainHdr, alpha, maxA, &ord)
	areas(c, "a:option-areas(relay)", relayHdr, alpha, maxR, &ord)
	// (a2) list-shaped options: ORO 6, status 13, user class 15, vendor class 16, 4 = IA_TA / lengths
	alpha2 := []byte{0x00, 0x01, 0x02, 0x04, 0x06, 0x0d, 0x0f, 0x10}
	max2 := 7
	if c.Thorough() {
		max2 = 8
	}
	areas(c, "a2:option-areas(msg)", plainHdr, alpha2, max2, &ord)
	// (a3) name-shaped options: domain list 24 (0x18), FQDN 39 (0x27), NTP 56 (0x38) with sub-option 3,
	// label lengths 1/2/3, pointer c0, reserved label type 40
	alpha3 := []byte{0x00, 0x01, 0x02, 0x03, 0x18, 0x27, 0x38, 0x40, 0xc0}
	max3 := 7
	if c.Thorough() {
		max3 = 8
	}
	areas(c, "a3:option-areas(msg)", plainHdr, alpha3, max3, &ord)
	// (a4) boot-file parameters 60 (0x3c), client arch 61 (0x3d), NII 62 (0x3e), interface-id 18 (0x12), vendor-opts 17 (0x11), relay-msg 9, relay type 0c
	alpha4 := []byte{0x00, 0x01, 0x02, 0x04, 0x09, 0x0c, 0x11, 0x3c, 0x3d, 0x3e}
	max4 := 6
	if c.Thorough() {
		max4 = 7
	}
	areas(c, "a4:option-areas(relay)", relayHdr, alpha4, max4, &ord)

	// (b) every corpus instance, every context, every perturbation
	ins := corpus6.Instances()
	ctxs := contexts()
	levelProblems.Range(func(k, v any) bool {
		c.Report(fw.Violation{Fingerprint: "dhcpv6.ToBytes|container-encoding-does-not-end-with-its-nested-option|" + k.(string), Order: ord, Scope: "b:container baselines",
			Input:    "container " + k.(string) + " built around a status-code option (code 13, \"p\")",
			Observed: "encoding " + v.(string), Expected: "the container's fixed part followed by the nested option 000d0003000070",
			Explain:  "nested options are the tail of their container's value (RFC 8415 §21); the check derives each container's fixed part from this encoding"})
		return true
	})
	type job struct {
		x    *context
		in   corpus6.Instance
		code uint16
		p    []byte
	}
	var jobs []job
	for i := range ctxs {
		for _, in := range ins {
			o := in.Build()
			p := append([]byte{}, o.ToBytes()...)
			if len(ctxs[i].levels) > 0 && ctxs[i].levels[len(ctxs[i].levels)-1].name == "NTP" && in.Code >= 1 && in.Code <= 3 {
				continue // NTP gives codes 1..3 its own meaning; covered by the NTP instances themselves
			}
			jobs = append(jobs, job{&ctxs[i], in, in.Code, p})
		}
	}
	// the NTP sub-option code space has its own instances (codes 1..3 mean something else there)
	lvl := containerLevels()
	ntpCtxs := []context{
		{"in NTP (sub-option space)", plainHdr, []level{lvl["NTP"]}},
		{"in relay-msg>NTP (sub-option space, relay)", relayHdr, []level{lvl["relay-msg"], lvl["NTP"]}},
	}
	ntpIns := corpus6.NTPSubInstances()
	for i := range ntpCtxs {
		for _, in := range ntpIns {
			jobs = append(jobs, job{&ntpCtxs[i], in, in.Code, append([]byte{}, in.Build().ToBytes()...)})
		}
	}
	var bCases, bAccepted int64
	var mu sync.Mutex
	kinds := map[string]int64{}
	b0 := ord
	c.Range(int64(len(jobs)), func(j int64) {
		jb := jobs[j]
		var n, acc int64
		local := map[string]int64{}
		mutations(jb.x, jb.code, jb.p, func(kind string, b []byte) {
			scope := "b:" + kind + "(" + jb.in.Name + " " + jb.x.name + ")"
			if Check(c, scope, b0+j*4096+n, b) {
				acc++
			}
			n++
			local[kind]++
		})
		mu.Lock()
		bCases += n
		bAccepted += acc
		for k, v := range local {
			kinds[k] += v
		}
		mu.Unlock()
	})
	c.Eval(bCases - int64(len(jobs))) // Range counted one per job
	c.Nontrivial(bAccepted)
	ctxNames := []string{}
	for _, x := range ctxs {
		ctxNames = append(ctxNames, x.name)
	}
	for _, x := range ntpCtxs {
		ctxNames = append(ctxNames, x.name)
	}
	c.Scope("b:instance-perturbations", "instances", len(ins), "ntp_suboption_instances", len(ntpIns), "contexts", ctxNames, "cases", bCases, "by_kind", kinds,
		"perturbations", "valid; value truncated to every length (framing consistent); value+1 octet; message cut at every offset; own length -1/+1/0/ffff; each container length -1/+1/0/ffff/-4 (with and without an octet after the message); 1-4 trailing octets inside each container and after the message; every inner octet and 16-bit field -1/+1/0/max")
	ord += int64(len(jobs)) * 4096

	// (b2) ParseOption on every instance value, every truncation, +1 octet, every inner octet/u16 perturbation
	var oCases int64
	for _, in := range ins {
		p := append([]byte{}, in.Build().ToBytes()...)
		try := func(q []byte) {
			if CheckOption(c, "b2:ParseOption("+in.Name+")", ord, in.Code, q) {
				c.Nontrivial(1)
			}
			ord++
			oCases++
		}
		try(p)
		for k := 0; k < len(p); k++ {
			try(p[:k])
		}
		try(append(append([]byte{}, p...), 0))
		for _, off := range offsets(len(p)) {
			for _, nv := range []byte{p[off] - 1, p[off] + 1, 0, 0xff} {
				if nv != p[off] {
					q := append([]byte{}, p...)
					q[off] = nv
					try(q)
				}
			}
		}
	}
	c.Eval(oCases)
	c.Scope("b2:ParseOption", "instances", len(ins), "cases", oCases)

	// (c) header truncations 0..34 (and beyond, through a first option) for both header kinds and both relay types
	var hCases int64
	for _, h := range [][]byte{plainHdr, relayHdr, append([]byte{13}, relayHdr[1:]...), {0, 0, 0, 0}, {255, 0xff, 0xff, 0xff}} {
		for _, tail := range [][]byte{nil, {0, 8, 0, 2, 0x01, 0x02}, {0, 14, 0, 0}} {
			full := append(append([]byte{}, h...), tail...)
			for k := 0; k <= len(full); k++ {
				if Check(c, "c:header-truncation", ord, full[:k]) {
					c.Nontrivial(1)
				}
				ord++
				hCases++
			}
		}
	}
	// every message type 0..255 with a 4-octet and a 34-octet body
	for t := 0; t < 256; t++ {
		for _, n := range []int{1, 3, 4, 33, 34, 38} {
			in := make([]byte, n)
			in[0] = byte(t)
			if n == 38 {
				copy(in[34:], []byte{0, 14, 0, 0})
			}
			if Check(c, "c:message-type", ord, in) {
				c.Nontrivial(1)
			}
			ord++
			hCases++
		}
	}
	c.Eval(hCases)
	c.Scope("c:headers", "cases", hCases, "what", "every cut 0..len of 5 headers x 3 tails; every message type 0..255 x sizes {1,3,4,33,34,38}")

	flushUnspecified(c)
	unadMu.Lock()
	ul := make([]string, 0, len(unad))
	for k := range unad {
		ul = append(ul, k)
	}
	unadMu.Unlock()
	sort.Strings(ul)
	c.Extra("unadapted_library_types", ul)
	c.Extra("unspecified_classes", v6ref.UnspecifiedClasses())
	c.Extra("may_reject_classes", v6ref.MayRejectClasses())
	c.Extra("reference_leniencies", v6ref.Leniencies())
	c.Assume("reference decoder v6ref written from RFC 8415 and the per-option RFCs (stdlib only, no library import)",
		"requested-option lists are compared modulo removal of repeated codes (C06 statement normalisation)",
		"UNSPECIFIED inputs (classes listed under unspecified_classes): only no-panic, determinism and, when accepted, repeatable encoding are demanded",
		"MAY-REJECT inputs (classes listed under may_reject_classes: well-framed, but an RFC sentence makes refusal defensible): the library may reject; when it accepts, its value tree must equal the reference tree (counted under unspecified_cases as may-reject / may-reject(library rejects))")
}
