// Package c06: decode→encode→decode is a fixpoint for DHCPv4 and DHCPv6.
//
// For every enumerated input b that the library accepts:
//
//	b1 = enc(dec(b))
//	(1) dec(b1) succeeds                                   clause "reencoding-rejected"
//	(2) enc(dec(b1)) == b1 byte for byte                    clause "not-fixpoint"
//	(3) value(dec(b1)) == value(dec(b)) through the adapter clause "message-changed"
//	(4) ref(b1) == ref(b): the independent reference decoder reads the same
//	    message from the re-encoded bytes as from the original ones
//	                                                        clause "reference-reading-changed"
//
// (3) and (4) are taken modulo exactly the normalisations the statement lists:
// DHCPv4 option order, padding and instance splitting (the reference reading is
// the per-code concatenation), sname/file cut to 63/127 octets, repeated
// requested-option codes, reserved bits (DHCPv4 flags other than the broadcast
// bit, FQDN flag bits 3..7, 4RD rule flag bits the RFC does not define — the
// reference reading does not contain them). For inputs in one of v6ref's
// UNSPECIFIED classes, and for what v4ref does not read (octets after End,
// chaddr octets beyond hlen), clause (4) does not apply; (1)–(3) do.
//
// Acceptance itself is not judged here (C04 / C05 do that): inputs the library
// rejects are counted as evaluated and skipped.
package c06

import (
	"bytes"
	"fmt"
	"os"
	"reflect"
	"runtime/debug"
	"sort"
	"strings"
	"sync"
	"sync/atomic"
	"time"

	"github.com/insomniacslk/dhcp/dhcpv4"
	"github.com/insomniacslk/dhcp/dhcpv6"
	"verif/seq/adapt"
	"verif/seq/corpus6"
	"verif/seq/fw"
	"verif/seq/ref/v4ref"
	"verif/seq/ref/v6ref"
)

// ---------------------------------------------------------------- statistics

type stats struct {
	accepted, noncanonical, refSkipped, unadapted atomic.Int64
	unspec                                        sync.Map // class -> *atomic.Int64
}

func (s *stats) note(class string) {
	v, ok := s.unspec.Load(class)
	if !ok {
		v, _ = s.unspec.LoadOrStore(class, new(atomic.Int64))
	}
	v.(*atomic.Int64).Add(1)
}

var st stats

// ---------------------------------------------------------------- DHCPv4

func goTest4(in []byte) string {
	return fmt.Sprintf(`func TestReplay(t *testing.T) {
	in, _ := hex.DecodeString(%q)
	p, err := dhcpv4.FromBytes(in)
	if err != nil {
		t.Skip(err)
	}
	b1 := p.ToBytes()
	p1, err := dhcpv4.FromBytes(b1)
	if err != nil {
		t.Fatalf("re-encoding is rejected: %%v", err)
	}
	if b2 := p1.ToBytes(); !bytes.Equal(b1, b2) {
		t.Errorf("not a fixpoint:\n b1=%%x\n b2=%%x", b1, b2)
	}
	t.Logf("first:  %%s\nsecond: %%s", p.Summary(), p1.Summary())
	// sname/file longer than 63/127 octets are cut, reserved flag bits may be cleared: everything else must be equal
	if p.Summary() != p1.Summary() {
		t.Errorf("the packet changed")
	}
}`, fw.Hex(in))
}

func cut(s string, n int) string {
	if len(s) > n {
		return s[:n]
	}
	return s
}

// v4node renders a library packet as a reference-shaped node with the statement's normalisations.
func v4node(p *dhcpv4.DHCPv4) *v6ref.Node {
	f, ch := adapt.V4TreeOf(p)
	n := &v6ref.Node{Code: 87, Name: "DHCPv4-msg", Fields: f, Children: ch}
	normV4Node(n)
	return n
}

func v4refNode(p *v4ref.Packet) *v6ref.Node {
	f, ch := v6ref.V4Tree(p)
	n := &v6ref.Node{Code: 87, Name: "DHCPv4-msg", Fields: f, Children: ch}
	normV4Node(n)
	return n
}

// normV4Node applies the reserved-bits and name-capacity normalisations to a DHCPv4-msg node.
func normV4Node(n *v6ref.Node) {
	for i := range n.Fields {
		switch n.Fields[i].Name {
		case "Flags":
			if v, ok := n.Fields[i].Val.(uint64); ok {
				n.Fields[i].Val = v & 0x8000
			}
		case "SName":
			if s, ok := n.Fields[i].Val.(string); ok {
				n.Fields[i].Val = cut(s, 63)
			}
		case "File":
			if s, ok := n.Fields[i].Val.(string); ok {
				n.Fields[i].Val = cut(s, 127)
			}
		}
	}
}

func fieldOf(path string) string {
	path = v6ref.PathClass(path)
	if i := strings.LastIndex(path, ")."); i >= 0 {
		return path[i+2:]
	}
	return path
}

// CheckV4 runs the fixpoint oracle on one DHCPv4 input. It returns true when the
// library accepted the input (all clauses were evaluated).
func CheckV4(c *fw.Ctx, scope string, order int64, in []byte) bool {
	var p *dhcpv4.DHCPv4
	var err error
	if pv, stk := fw.Safe(func() { p, err = dhcpv4.FromBytes(append([]byte(nil), in...)) }); pv != nil {
		c.Report(fw.Violation{Fingerprint: "dhcpv4.FromBytes|panic|" + fw.PanicSite(stk), Order: order, Scope: scope, Input: fw.Hex(in),
			Observed: fmt.Sprintf("panic: %v at %s", pv, stk), Expected: "value or error", GoTest: goTest4(in)})
		return false
	}
	if err != nil {
		return false
	}
	st.accepted.Add(1)
	rep := func(clause, class, obs, exp, why string) {
		c.Report(fw.Violation{Fingerprint: "dhcpv4|" + clause + "|" + class, Order: order, Scope: scope, Input: fw.Hex(in),
			Observed: obs, Expected: exp, Explain: why, GoTest: goTest4(in)})
	}
	var b1, b2 []byte
	var p1 *dhcpv4.DHCPv4
	var err1 error
	if pv, stk := fw.Safe(func() {
		b1 = p.ToBytes()
		p1, err1 = dhcpv4.FromBytes(append([]byte(nil), b1...))
		if err1 == nil {
			b2 = p1.ToBytes()
		}
	}); pv != nil {
		c.Report(fw.Violation{Fingerprint: "dhcpv4.ToBytes|panic|" + fw.PanicSite(stk), Order: order, Scope: scope, Input: fw.Hex(in),
			Observed: fmt.Sprintf("panic re-encoding / re-decoding an accepted packet: %v at %s", pv, stk), Expected: "bytes", GoTest: goTest4(in)})
		return true
	}
	if !bytes.Equal(b1, in) {
		st.noncanonical.Add(1)
	}
	if err1 != nil {
		rep("reencoding-rejected", "accepted-packet", fmt.Sprintf("b1=%s: %v", fw.HexShort(b1), err1), "dec(enc(dec(b))) succeeds",
			"the library's own encoding of a packet it accepted is rejected by its decoder")
		return true
	}
	if !bytes.Equal(b1, b2) {
		rep("not-fixpoint", firstDiffV4(b1, b2), fmt.Sprintf("b1=%s\nb2=%s", fw.HexShort(b1), fw.HexShort(b2)), "enc(dec(b1)) == b1",
			"a second decode/encode pass changes the bytes again")
		return true
	}
	n0, n1 := v4node(p), v4node(p1)
	if ok, path, d := v6ref.EqualNode(n0, n1); !ok {
		rep("message-changed", fieldOf(path), fmt.Sprintf("%s: first decode %s re-decoded\nb1=%s", path, strings.Replace(d, " vs ", " vs (re-decoded) ", 1), fw.HexShort(b1)),
			"dec(enc(dec(b))) equals dec(b) (modulo sname/file capacity and reserved flag bits)", "the packet changed by passing through the library")
		return true
	}
	// reference reading preserved
	r0, rerr0 := v4ref.Decode(in)
	if rerr0 != nil {
		st.refSkipped.Add(1) // acceptance disagreement: C04's business
		return true
	}
	r1, rerr1 := v4ref.Decode(b1)
	if rerr1 != nil {
		rep("reference-rejects-reencoding", fmt.Sprint(rerr1), fmt.Sprintf("b1=%s: reference decoder: %v", fw.HexShort(b1), rerr1), "the re-encoding is a well-formed RFC 2131 packet", "")
		return true
	}
	if r0.EndAt >= 0 && r0.EndAt+1 < len(in) && !allZero(in[r0.EndAt+1:]) {
		st.note("v4: non-zero octets after End (not part of the reading)")
	}
	if h := int(r0.HLen); h < 16 && !allZero(r0.CHAddrRaw[h:]) {
		st.note("v4: non-zero chaddr octets beyond hlen (not part of the reading)")
	}
	if r0.HLen > 16 {
		st.note("v4: hlen > 16 (address read as the 16 chaddr octets)")
	}
	if ok, path, d := v6ref.EqualNode(v4refNode(r0), v4refNode(r1)); !ok {
		rep("reference-reading-changed", fieldOf(path), fmt.Sprintf("%s: reference reading of b is %s reference reading of b1\nb1=%s", path, strings.Replace(d, " vs ", " vs ", 1), fw.HexShort(b1)),
			"an independent RFC 2131/2132/3396 decoder reads the same packet from b1 as from b (modulo option order/padding/splitting, sname/file capacity, reserved flag bits)",
			"forwarding the packet through the library changed what it says")
	}
	return true
}

func allZero(b []byte) bool {
	for _, x := range b {
		if x != 0 {
			return false
		}
	}
	return true
}

func firstDiffV4(a, b []byte) string {
	n := len(a)
	if len(b) < n {
		n = len(b)
	}
	i := 0
	for i < n && a[i] == b[i] {
		i++
	}
	switch {
	case i < 236:
		return "header"
	case i < 240:
		return "cookie"
	}
	return "options-area"
}

// ---------------------------------------------------------------- DHCPv6

func goTest6(in []byte) string {
	return fmt.Sprintf(`func TestReplay(t *testing.T) {
	in, _ := hex.DecodeString(%q)
	m, err := dhcpv6.FromBytes(in)
	if err != nil {
		t.Skip(err)
	}
	b1 := m.ToBytes()
	m1, err := dhcpv6.FromBytes(b1)
	if err != nil {
		t.Fatalf("re-encoding is rejected: %%v", err)
	}
	b2 := m1.ToBytes()
	t.Logf("\n in=%%x\n b1=%%x\n b2=%%x\nfirst:  %%s\nsecond: %%s", in, b1, b2, m.Summary(), m1.Summary())
	if !bytes.Equal(b1, b2) {
		t.Errorf("not a fixpoint")
	}
	if m.Summary() != m1.Summary() || !reflect.DeepEqual(m, m1) {
		t.Errorf("the message changed:\n first  %%#v\n second %%#v", m, m1)
	}
}`, fw.Hex(in))
}

// normalise applies the statement's normalisations to a reference-shaped tree.
func normalise(m *v6ref.Msg) *v6ref.Msg {
	v6ref.DedupORO(m)
	v6ref.Walk(m, func(n *v6ref.Node) {
		switch n.Name {
		case "FQDN":
			for i := range n.Fields {
				if v, ok := n.Fields[i].Val.(uint64); ok && n.Fields[i].Name == "Flags" {
					n.Fields[i].Val = v & 0x07 // RFC 4704 §4.1: the upper five bits are MBZ
				}
			}
		case "DHCPv4-msg":
			normV4Node(n)
		}
	})
	return m
}

var shortClass = map[string]string{
	v6ref.WhyPrefixLenRange:      "prefix-length>128",
	v6ref.WhyPrefixZeroLenBits:   "prefix-length-0-with-address-bits",
	v6ref.Why4RDPrefixLenRange:   "4rd-prefix-length-out-of-range",
	v6ref.WhyNameReserved:        "name:reserved-label-type",
	v6ref.WhyNamePtrOutside:      "name:pointer-outside",
	v6ref.WhyNamePtrUnterminated: "name:pointer-to-unterminated-tail",
	v6ref.WhyNamePtrLoop:         "name:pointer-loop",
	v6ref.WhyNameLong:            "name:longer-than-255",
}

// childLists returns the nested option lists of a library option (innermost culprit search).
func childLists(o dhcpv6.Option) []dhcpv6.Options {
	switch x := o.(type) {
	case *dhcpv6.OptIANA:
		return []dhcpv6.Options{x.Options.Options}
	case *dhcpv6.OptIATA:
		return []dhcpv6.Options{x.Options.Options}
	case *dhcpv6.OptIAPD:
		return []dhcpv6.Options{x.Options.Options}
	case *dhcpv6.OptIAAddress:
		return []dhcpv6.Options{x.Options.Options}
	case *dhcpv6.OptIAPrefix:
		return []dhcpv6.Options{x.Options.Options}
	case *dhcpv6.OptVendorOpts:
		return []dhcpv6.Options{x.VendorOpts}
	case *dhcpv6.OptNTPServer:
		return []dhcpv6.Options{x.Suboptions}
	case *dhcpv6.Opt4RD:
		return []dhcpv6.Options{x.Options}
	}
	rv := reflect.Indirect(reflect.ValueOf(o))
	if rv.Kind() == reflect.Struct {
		if f := rv.FieldByName("Msg"); f.IsValid() && f.CanInterface() {
			if d, ok := f.Interface().(dhcpv6.DHCPv6); ok && d != nil {
				return []dhcpv6.Options{topOptions(d)}
			}
		}
	}
	return nil
}

func topOptions(d dhcpv6.DHCPv6) dhcpv6.Options {
	switch m := d.(type) {
	case *dhcpv6.Message:
		if m != nil {
			return m.Options.Options
		}
	case *dhcpv6.RelayMessage:
		if m != nil {
			return m.Options.Options
		}
	}
	return nil
}

// culprit names the innermost option whose own value is not a fixpoint of
// FromBytes∘ToBytes (diagnosis for the fingerprint only).
func culprit(l dhcpv6.Options) string {
	for _, o := range l {
		if o == nil {
			continue
		}
		for _, ch := range childLists(o) {
			if c := culprit(ch); c != "" {
				return c
			}
		}
		bad := false
		fw.Safe(func() {
			pb := append([]byte{}, o.ToBytes()...)
			t := reflect.TypeOf(o)
			if t.Kind() != reflect.Ptr {
				return
			}
			n, ok := reflect.New(t.Elem()).Interface().(dhcpv6.Option)
			if !ok {
				return
			}
			if g, ok := n.(*dhcpv6.OptionGeneric); ok {
				g.OptionCode = o.Code()
			}
			if err := n.FromBytes(append([]byte{}, pb...)); err != nil {
				bad = true
				return
			}
			if !bytes.Equal(n.ToBytes(), pb) {
				bad = true
			}
		})
		if bad {
			name := "?"
			fw.Safe(func() { name = adapt.TreeOfOption(o).Name })
			return name
		}
	}
	return ""
}

func nodeOfPath(path string) string {
	pc := v6ref.PathClass(path)
	i := strings.LastIndex(pc, "(")
	j := strings.LastIndex(pc, ")")
	if i >= 0 && j > i {
		return pc[i+1 : j]
	}
	return "message"
}

// CheckV6 runs the fixpoint oracle on one DHCPv6 input. It returns true when the
// library accepted the input.
func CheckV6(c *fw.Ctx, scope string, order int64, in []byte) bool {
	var m dhcpv6.DHCPv6
	var err error
	if pv, stk := fw.Safe(func() { m, err = dhcpv6.FromBytes(append([]byte(nil), in...)) }); pv != nil {
		c.Report(fw.Violation{Fingerprint: "dhcpv6.FromBytes|panic|" + fw.PanicSite(stk), Order: order, Scope: scope, Input: fw.Hex(in),
			Observed: fmt.Sprintf("panic: %v at %s", pv, stk), Expected: "value or error", GoTest: goTest6(in)})
		return false
	}
	if err != nil {
		return false
	}
	st.accepted.Add(1)
	// the reference verdict decides which clauses apply and names the input class
	rt, rv, why := v6ref.DecodeMessage(in)
	class := "well-formed"
	switch rv {
	case v6ref.MayReject:
		class = "may-reject:" + why
	case v6ref.Unspecified:
		class = shortClass[why]
		if class == "" {
			class = why
		}
		st.note(why)
	case v6ref.Reject:
		class = "reference-rejects"
		st.refSkipped.Add(1) // acceptance disagreement: C05's business; the stability clauses still apply
	}
	rep := func(node, clause, obs, exp, explain string) {
		c.Report(fw.Violation{Fingerprint: "dhcpv6." + node + "|" + clause + "|" + class, Order: order, Scope: scope, Input: fw.Hex(in),
			Observed: obs, Expected: exp, Explain: explain, GoTest: goTest6(in)})
	}
	var b1, b2 []byte
	var m1 dhcpv6.DHCPv6
	var err1 error
	if pv, stk := fw.Safe(func() {
		b1 = m.ToBytes()
		m1, err1 = dhcpv6.FromBytes(append([]byte(nil), b1...))
		if err1 == nil {
			b2 = m1.ToBytes()
		}
	}); pv != nil {
		c.Report(fw.Violation{Fingerprint: "dhcpv6.ToBytes|panic|" + fw.PanicSite(stk), Order: order, Scope: scope, Input: fw.Hex(in),
			Observed: fmt.Sprintf("panic re-encoding / re-decoding an accepted message: %v at %s", pv, stk), Expected: "bytes", GoTest: goTest6(in)})
		return true
	}
	if !bytes.Equal(b1, in) {
		st.noncanonical.Add(1)
	}
	who := func() string {
		if n := culprit(topOptions(m)); n != "" {
			return n
		}
		return "message"
	}
	if err1 != nil {
		rep(who(), "reencoding-rejected", fmt.Sprintf("b1=%s: %v", fw.HexShort(b1), err1), "dec(enc(dec(b))) succeeds",
			"the library's own encoding of a message it accepted is rejected by its decoder")
		return true
	}
	if !bytes.Equal(b1, b2) {
		rep(who(), "not-fixpoint", fmt.Sprintf("b1=%s\nb2=%s", fw.HexShort(b1), fw.HexShort(b2)), "enc(dec(b1)) == b1",
			"a second decode/encode pass changes the bytes again: the first re-encoding is not what the library itself reads back and writes")
		return true
	}
	var t0, t1 *v6ref.Msg
	if pv, stk := fw.Safe(func() {
		t0 = normalise(adapt.TreeOfMessageWith(m, adapt.V6Opts{DedupORO: true}))
		t1 = normalise(adapt.TreeOfMessageWith(m1, adapt.V6Opts{DedupORO: true}))
	}); pv != nil {
		c.Report(fw.Violation{Fingerprint: "adapter|panic|" + fw.PanicSite(stk), Order: order, Scope: scope, Input: fw.Hex(in),
			Observed: fmt.Sprintf("panic walking a decoded value: %v at %s", pv, stk), Expected: "a well-formed value", GoTest: goTest6(in)})
		return true
	}
	if len(adapt.V6Unadapted(t0)) > 0 || len(adapt.V6Unadapted(t1)) > 0 {
		st.unadapted.Add(1)
	} else if ok, path, d := v6ref.Equal(t0, t1); !ok {
		rep(nodeOfPath(path), "message-changed", fmt.Sprintf("%s: first decode %s re-decoded\nb1=%s\nfirst:      %s\nre-decoded: %s", path, d, fw.HexShort(b1), trunc(t0.String()), trunc(t1.String())),
			"dec(enc(dec(b))) equals dec(b) (modulo repeated requested-option codes, reserved bits, DHCPv4 name capacity)",
			"the message changed by passing through the library once")
		return true
	}
	if !rv.HasTree() {
		return true
	}
	rt1, rv1, why1 := v6ref.DecodeMessage(b1)
	if !rv1.HasTree() {
		rep(who(), "reference-rejects-reencoding", fmt.Sprintf("b1=%s: reference decoder: %s (%s)", fw.HexShort(b1), rv1, why1),
			"the re-encoding of a well-formed message is a well-formed message", "")
		return true
	}
	if ok, path, d := v6ref.Equal(normalise(rt), normalise(rt1)); !ok {
		rep(nodeOfPath(path), "reference-reading-changed", fmt.Sprintf("%s: reading of b %s reading of b1\nb1=%s\nreading of b:  %s\nreading of b1: %s", path, d, fw.HexShort(b1), trunc(rt.String()), trunc(rt1.String())),
			"an independent RFC 8415 decoder reads the same message from b1 as from b (modulo repeated requested-option codes, reserved bits, DHCPv4 normalisations)",
			"forwarding the message through the library changed what it says")
	}
	return true
}

func trunc(s string) string {
	if len(s) > 500 {
		return s[:500] + "…"
	}
	return s
}

// ---------------------------------------------------------------- Run

var tick = func(c *fw.Ctx, what string) {}

func pow(a, n int) int64 {
	r := int64(1)
	for i := 0; i < n; i++ {
		r *= int64(a)
	}
	return r
}

// areas enumerates every string over alpha up to maxLen after hdr.
func areas(c *fw.Ctx, scope string, hdr []byte, alpha []byte, maxLen int, ord *int64, check func(*fw.Ctx, string, int64, []byte) bool) {
	var acc atomic.Int64
	var base int64
	for l := 0; l <= maxLen; l++ {
		n := pow(len(alpha), l)
		ll, b0 := l, *ord+base
		c.Range(n, func(i int64) {
			in := make([]byte, len(hdr)+ll)
			copy(in, hdr)
			x := i
			for k := 0; k < ll; k++ {
				in[len(hdr)+k] = alpha[x%int64(len(alpha))]
				x /= int64(len(alpha))
			}
			if check(c, scope, b0+i, in) {
				acc.Add(1)
				if i%100003 == 7 {
					c.Sample(map[string]any{"scope": scope, "options_area": fw.Hex(in[len(hdr):])})
				}
			}
		})
		base += n
	}
	c.Nontrivial(acc.Load())
	c.Scope(scope, "alphabet", fw.Hex(alpha), "max_len", maxLen, "cases", base, "accepted", acc.Load())
	*ord += base
	tick(c, scope)
}

// list runs a generated list in parallel.
func list(c *fw.Ctx, scope string, l []Named, ord *int64, check func(*fw.Ctx, string, int64, []byte) bool, kv ...any) {
	var acc atomic.Int64
	b0 := *ord
	c.Range(int64(len(l)), func(i int64) {
		if check(c, scope+":"+l[i].Name, b0+i, l[i].B) {
			acc.Add(1)
		}
	})
	c.Nontrivial(acc.Load())
	c.Scope(scope, append([]any{"cases", len(l), "accepted", acc.Load()}, kv...)...)
	*ord += int64(len(l))
	for i := 0; i < len(l); i += 1 + len(l)/3 {
		c.Sample(map[string]any{"scope": scope, "name": l[i].Name, "input": fw.HexShort(l[i].B)})
	}
	tick(c, scope)
}

func timeSince(c *fw.Ctx) float64 { return time.Since(c.Start).Seconds() }

func Run(c *fw.Ctx) {
	if os.Getenv("GOGC") == "" {
		defer debug.SetGCPercent(debug.SetGCPercent(800))
	}
	c.SetRule("inputs are enumerated injectively (every string over each alphabet up to the bound after each header; every listed structural packet, perturbation and field value once); non-trivial = accepted by the library's decoder, so b1 = enc(dec(b)) was built, re-decoded, re-encoded and compared (bytes, library value through the adapter, and the independent reference reading of b and b1)")
	var ord int64
	if os.Getenv("VERIF_TIMING") != "" {
		tick = func(c *fw.Ctx, what string) { fmt.Fprintf(os.Stderr, "%6.1fs %s\n", timeSince(c), what) }
	}

	// ---- the expected-finding families first, so that the smallest order is the minimal input
	oor := V6OutOfRange()
	list(c, "v6.c:out-of-range-and-non-canonical", oor, &ord, CheckV6,
		"what", "IAPREFIX prefix-length octet 0..255 x 3 addresses x with/without nested status x 4 contexts; 4RD map rule prefix4-len 0..255 x 8 prefix6-len and prefix6-len 0..255 x 8 prefix4-len, every flags octet, in 3 contexts; 4RD non-map rule every flags octet x 3 traffic classes x 3 PMTUs; FQDN every flags octet x 5 name forms; every ORO sequence over 4 codes up to 5 entries; T1/T2, lifetimes, refresh time over 7 extremes (squared); hop count 0..255, message type 0..255; status codes x texts with NUL / invalid UTF-8; DUID types x lengths 0..20; written-out compressed names (single-level pointers, trailing partial names, root names) in options 24, 39, 56/3")

	// every elapsed-time value
	{
		var acc atomic.Int64
		b0 := ord
		c.Range(65536, func(i int64) {
			in := cat(Hdr6, TLV6(8, []byte{byte(i >> 8), byte(i)}))
			if CheckV6(c, "v6.c:elapsed-time", b0+i, in) {
				acc.Add(1)
			}
		})
		c.Nontrivial(acc.Load())
		c.Scope("v6.c:elapsed-time", "values", "all 65536", "accepted", acc.Load())
		ord += 65536
	}

	// ---- DHCPv4
	alpha := []byte{0x00, 0x01, 0x02, 0x03, 0x35, 0x52, 0xff}
	alpha2 := []byte{0x00, 0x0c, 0x04, 0x05, 0x52, 0xfe, 0xff, 0x01}
	m1, m2 := 7, 6
	if c.Thorough() {
		m1, m2 = 9, 8
	}
	pre := V4Packet()
	areas(c, "v4.a:option-areas", pre, alpha, m1, &ord, CheckV4)
	areas(c, "v4.a2:option-areas", pre, alpha2, m2, &ord, CheckV4)
	v4s := V4Structural()
	list(c, "v4.b:structural", v4s, &ord, CheckV4,
		"what", "all orders of 5 options (82 anywhere); values of 0..765 octets split into instances in 24 ways (non-maximal, zero-length, interleaved with other options and with another split value); 0-2 pads in each of 4 gaps; 12 tails after End; sname/file first NUL at every position (with and without junk behind it) and none; hlen 0..255 over non-zero chaddr; 4 address fields x 6 forms; zero-length and repeated options; every code 1..254 with 0/1-octet value; sizes 241..1500; every header octet x {00,01,7f,80,ff}, first 40 option-area octets x 256 values and every cut of 2 packets; one option with every length octet x 4 remaining sizes")

	// ---- DHCPv6 option areas
	a := []byte{0x00, 0x01, 0x02, 0x03, 0x08, 0x0e, 0xff}
	a2 := []byte{0x00, 0x01, 0x02, 0x04, 0x06, 0x0d, 0x0f, 0x10}
	a3 := []byte{0x00, 0x01, 0x02, 0x03, 0x18, 0x27, 0x38, 0x40, 0xc0}
	a4 := []byte{0x00, 0x01, 0x02, 0x04, 0x09, 0x0c, 0x11, 0x3c, 0x3d, 0x3e}
	nA, nR, n2, n3, n4 := 7, 7, 7, 7, 6
	if c.Thorough() {
		nA, nR, n2, n3, n4 = 9, 8, 8, 8, 7
	}
	areas(c, "v6.a:option-areas(msg)", Hdr6, a, nA, &ord, CheckV6)
	areas(c, "v6.a:option-areas(relay)", RelayHdr6, a, nR, &ord, CheckV6)
	areas(c, "v6.a2:option-areas(msg)", Hdr6, a2, n2, &ord, CheckV6)
	areas(c, "v6.a3:option-areas(msg)", Hdr6, a3, n3, &ord, CheckV6)
	areas(c, "v6.a4:option-areas(relay)", RelayHdr6, a4, n4, &ord, CheckV6)

	// ---- name payloads: every string over the name alphabet as the value of options 24, 39 (after a flags octet) and 56/3
	na := []byte{0x00, 0x01, 0x02, 0x03, 'a', '.', 0xc0, 0x40, 0x80} // '.' inside a label: the library joins labels with dots
	nN := 6
	if c.Thorough() {
		nN = 8
	}
	ntpCtx := Ctx6{Hdr: Hdr6, Levels: []Level6{lvNTP}}
	top := Ctx6{Hdr: Hdr6}
	for _, carrier := range []struct {
		name string
		wrap func(p []byte) []byte
	}{
		{"domain-list(24)", func(p []byte) []byte { return top.Wrap(24, p) }},
		{"FQDN(39)", func(p []byte) []byte { return top.Wrap(39, cat([]byte{1}, p)) }},
		{"NTP-server-FQDN(56/3)", func(p []byte) []byte { return ntpCtx.Wrap(3, p) }},
	} {
		var acc atomic.Int64
		var base int64
		for l := 0; l <= nN; l++ {
			n := pow(len(na), l)
			ll, b0 := l, ord+base
			c.Range(n, func(i int64) {
				p := make([]byte, ll)
				x := i
				for k := 0; k < ll; k++ {
					p[k] = na[x%int64(len(na))]
					x /= int64(len(na))
				}
				if CheckV6(c, "v6.d:names in "+carrier.name, b0+i, carrier.wrap(p)) {
					acc.Add(1)
				}
			})
			base += n
		}
		c.Nontrivial(acc.Load())
		c.Scope("v6.d:name-payloads in "+carrier.name, "alphabet", fw.Hex(na), "max_len", nN, "cases", base, "accepted", acc.Load())
		ord += base
	}

	// ---- every corpus instance in every context: unmodified, every octet substitution, every value truncation, value + 1 octet
	ins := corpus6.Instances()
	type job struct {
		x    Ctx6
		name string
		code uint16
		p    []byte
	}
	var jobs []job
	for _, x := range Contexts6() {
		for _, in := range ins {
			if x.NTP && in.Code >= 1 && in.Code <= 3 {
				continue // the NTP sub-option space gives 1..3 its own meaning; see below
			}
			jobs = append(jobs, job{x, in.Name, in.Code, append([]byte{}, in.Build().ToBytes()...)})
		}
	}
	nsub := corpus6.NTPSubInstances()
	for _, x := range NTPContexts6() {
		for _, in := range nsub {
			jobs = append(jobs, job{x, in.Name, in.Code, append([]byte{}, in.Build().ToBytes()...)})
		}
	}
	subst := []byte{0x00, 0x01, 0x7f, 0x80, 0xff}
	var sCases, sAcc atomic.Int64
	b0 := ord
	c.Range(int64(len(jobs)), func(j int64) {
		jb := jobs[j]
		var k int64
		try := func(kind string, p []byte) {
			if CheckV6(c, "v6.b:"+kind+"("+jb.name+" "+jb.x.Name+")", b0+j*8192+k, jb.x.Wrap(jb.code, p)) {
				sAcc.Add(1)
			}
			k++
		}
		try("valid", jb.p)
		for off := range jb.p {
			for _, s := range subst {
				if s == jb.p[off] {
					continue
				}
				q := append([]byte{}, jb.p...)
				q[off] = s
				try("substitution", q)
			}
		}
		for n := 0; n < len(jb.p); n++ {
			try("value-truncated", jb.p[:n])
		}
		try("value+1", append(append([]byte{}, jb.p...), 0))
		try("value+1", append(append([]byte{}, jb.p...), 0xff))
		sCases.Add(k)
	})
	c.Eval(sCases.Load() - int64(len(jobs)))
	c.Nontrivial(sAcc.Load())
	var ctxNames []string
	for _, x := range Contexts6() {
		ctxNames = append(ctxNames, x.Name)
	}
	for _, x := range NTPContexts6() {
		ctxNames = append(ctxNames, x.Name)
	}
	c.Scope("v6.b:corpus-instances", "instances", len(ins), "ntp_suboption_instances", len(nsub), "contexts", ctxNames, "cases", sCases.Load(), "accepted", sAcc.Load(),
		"perturbations", "unmodified; every payload offset x {00,01,7f,80,ff}; value truncated to every length; value + 1 octet (00 / ff)")
	ord += int64(len(jobs)) * 8192
	tick(c, "v6.b")

	// ---- DHCPv4 inside DHCPv6: every structural DHCPv4 packet as the value of option 87
	list(c, "v6.e:dhcpv4-in-dhcpv6", V4In6(v4s), &ord, CheckV6)

	// ---- the library-built corpus messages (canonical encodings): relay chains, long lists, chains
	var built []Named
	for _, mc := range corpus6.Messages(c.Thorough()) {
		var b []byte
		if pv, _ := fw.Safe(func() { b = mc.Build().ToBytes() }); pv == nil {
			built = append(built, Named{"msg/" + mc.Name, b})
		}
	}
	for _, ch := range corpus6.Chains() {
		for _, t := range []uint8{1, 7, 12} {
			var b []byte
			ch, t := ch, t
			if pv, _ := fw.Safe(func() { b = corpus6.NewMessage(t, [3]byte{1, 2, 3}, ch.Build()).ToBytes() }); pv == nil {
				built = append(built, Named{fmt.Sprintf("chain/%s/type%d", ch.Name, t), b})
			}
		}
	}
	list(c, "v6.f:corpus-messages", built, &ord, CheckV6)

	// ---- bookkeeping
	c.Extra("accepted_inputs", st.accepted.Load())
	c.Extra("accepted_inputs_whose_reencoding_differs_from_the_input", st.noncanonical.Load())
	c.Extra("reference_clause_skipped_because_reference_rejects_the_input", st.refSkipped.Load())
	c.Extra("value_comparison_skipped_unadapted_type", st.unadapted.Load())
	var classes []string
	st.unspec.Range(func(k, v any) bool {
		c.Unspecified(k.(string), v.(*atomic.Int64).Load())
		classes = append(classes, k.(string))
		return true
	})
	sort.Strings(classes)
	c.Extra("unspecified_classes_met", classes)
	c.Assume("reference decoders v4ref / v6ref written from the RFCs (stdlib only, no library import)",
		"normalisations applied to value and reference comparisons are exactly those of the statement: DHCPv4 option order / padding / instance splitting (per-code concatenation is compared), sname/file cut to 63/127 octets, repeated requested-option codes removed, reserved bits ignored (DHCPv4 flags bits 0..14, FQDN flags bits 3..7, undefined 4RD flag bits)",
		"for UNSPECIFIED inputs (classes listed) and for what v4ref does not read (octets after End, chaddr beyond hlen, the raw hlen octet when > 16) only the stability clauses apply: re-encoding is accepted, is byte-stable, and decodes to an equal value",
		"acceptance is not judged here (C04/C05)")
}
