package c06

// Input generators shared by C06 and C08: hand-assembled byte strings (no
// library call is involved in building them, except where a corpus6 value is
// encoded to obtain a baseline payload).

import (
	"fmt"

	"verif/seq/corpus6"
	"verif/seq/props/c04"
)

// Named is one generated input.
type Named struct {
	Name string
	B    []byte
}

func cat(parts ...[]byte) []byte {
	var out []byte
	for _, p := range parts {
		out = append(out, p...)
	}
	return out
}

// V4Opt is one DHCPv4 option instance code,len,value (len(v) <= 255).
func V4Opt(code byte, v []byte) []byte {
	return cat([]byte{code, byte(len(v))}, v)
}

// V4Packet is the C04 header+cookie followed by the given option-area bytes.
func V4Packet(area ...[]byte) []byte {
	return cat(append([][]byte{c04.Prefix()}, area...)...)
}

// V4Chunks splits v into instances of code with the given chunk lengths (which must sum to len(v)).
func V4Chunks(code byte, v []byte, chunks ...int) []byte {
	var out []byte
	pos := 0
	for _, n := range chunks {
		out = append(out, V4Opt(code, v[pos:pos+n])...)
		pos += n
	}
	if pos != len(v) {
		panic("V4Chunks: chunk lengths do not sum to the value length")
	}
	return out
}

func permutations(n int) [][]int {
	var out [][]int
	p := make([]int, n)
	for i := range p {
		p[i] = i
	}
	var rec func(k int)
	rec = func(k int) {
		if k == n {
			out = append(out, append([]int{}, p...))
			return
		}
		for i := k; i < n; i++ {
			p[k], p[i] = p[i], p[k]
			rec(k + 1)
			p[k], p[i] = p[i], p[k]
		}
	}
	rec(0)
	return out
}

// V4Structural returns accepted-but-non-canonical (and some canonical) DHCPv4
// packets: unsorted option orders (all permutations of five options, option 82
// anywhere), values longer than 255 octets split into several instances in many
// ways (non-maximal, zero-length and interleaved chunks), pad octets between
// options, repeated codes interleaved, octets after End, sname/file without NUL
// and with the first NUL at every position (junk behind it), hlen 0..255 over a
// non-zero chaddr, the four address fields over six forms each, every option
// code with a 0- and 1-octet value, every header octet over {00,01,7f,80,ff},
// every value of the first 40 option-area octets of two packets, and one option
// with every length octet.
func V4Structural() []Named {
	var out []Named
	add := func(name string, b []byte) { out = append(out, Named{"v4/" + name, b}) }
	end := []byte{0xff}
	o53 := V4Opt(53, []byte{1})
	o1 := V4Opt(1, []byte{255, 255, 255, 0})
	o12 := V4Opt(12, []byte("host"))
	o82 := V4Opt(82, []byte{1, 2, 'a', 'b', 2, 1, 'c'})
	o55 := V4Opt(55, []byte{3, 1, 6})
	// 1. all orders of five options
	five := [][]byte{o53, o1, o12, o82, o55}
	for _, p := range permutations(5) {
		var area []byte
		for _, i := range p {
			area = append(area, five[i]...)
		}
		add(fmt.Sprintf("order%v", p), V4Packet(area, end))
	}
	// 2. split values
	type split struct {
		total  int
		chunks []int
	}
	for _, s := range []split{
		{255, []int{255}}, {255, []int{100, 155}}, {256, []int{255, 1}}, {256, []int{1, 255}}, {256, []int{128, 128}},
		{300, []int{255, 45}}, {300, []int{45, 255}}, {300, []int{100, 100, 100}}, {300, []int{1, 255, 44}}, {300, []int{150, 150}},
		{300, []int{0, 255, 45}}, {300, []int{255, 0, 45}}, {300, []int{255, 45, 0}}, {300, []int{254, 46}},
		{510, []int{255, 255}}, {511, []int{255, 255, 1}}, {600, []int{255, 255, 90}}, {600, []int{200, 200, 200}}, {765, []int{255, 255, 255}},
		{3, []int{1, 1, 1}}, {2, []int{0, 2}}, {2, []int{2, 0}}, {0, []int{0, 0}}, {0, []int{0}},
	} {
		v := corpus6.Bytes(s.total, 9)
		add(fmt.Sprintf("split43/%d%v", s.total, s.chunks), V4Packet(o53, V4Chunks(43, v, s.chunks...), end))
		add(fmt.Sprintf("split43-unsorted/%d%v", s.total, s.chunks), V4Packet(V4Chunks(43, v, s.chunks...), o53, o1, end))
		if len(s.chunks) >= 2 {
			// chunks interleaved with another option and with another split value
			first := V4Opt(43, v[:s.chunks[0]])
			rest := V4Chunks(43, v[s.chunks[0]:], s.chunks[1:]...)
			add(fmt.Sprintf("split43-interleaved/%d%v", s.total, s.chunks), V4Packet(first, o12, rest, end))
			w := corpus6.Bytes(260, 77)
			add(fmt.Sprintf("split43+60-interleaved/%d%v", s.total, s.chunks), V4Packet(first, V4Opt(60, w[:200]), rest, V4Opt(60, w[200:]), o82, o53, end))
		}
	}
	// 3. pads before / between / after three options
	three := [][]byte{o55, o53, o12}
	for m := 0; m < 81; m++ {
		x := m
		var area []byte
		for k := 0; k < 4; k++ {
			for j := 0; j < x%3; j++ {
				area = append(area, 0)
			}
			x /= 3
			if k < 3 {
				area = append(area, three[k]...)
			}
		}
		add(fmt.Sprintf("pads/%d", m), V4Packet(area, end))
	}
	// 4. octets after End
	for i, tail := range [][]byte{{}, {0}, {0, 0, 0}, {0xff}, {0xff, 0xff}, {53, 1, 2}, {53}, {53, 5, 1}, {12, 0}, corpus6.Bytes(60, 1),
		cat(make([]byte, 59), []byte{0x42}), cat(make([]byte, 300), []byte{1, 2, 3})} {
		add(fmt.Sprintf("after-end/%d", i), V4Packet(o53, o12, end, tail))
		add(fmt.Sprintf("after-end-empty-area/%d", i), V4Packet(end, tail))
	}
	add("no-options-area", V4Packet())
	// 5. sname / file
	for pos := 0; pos <= 64; pos++ {
		for _, junk := range []bool{false, true} {
			b := V4Packet(o53, end)
			for i := 0; i < 64; i++ {
				b[44+i] = byte('a' + i%26)
			}
			if pos < 64 {
				b[44+pos] = 0
				if !junk {
					for i := pos; i < 64; i++ {
						b[44+i] = 0
					}
				}
			}
			add(fmt.Sprintf("sname/nul@%d/junk=%v", pos, junk), b)
		}
	}
	for pos := 0; pos <= 128; pos++ {
		for _, junk := range []bool{false, true} {
			b := V4Packet(o53, end)
			for i := 0; i < 128; i++ {
				b[108+i] = byte('A' + i%26)
			}
			if pos < 128 {
				b[108+pos] = 0
				if !junk {
					for i := pos; i < 128; i++ {
						b[108+i] = 0
					}
				}
			}
			add(fmt.Sprintf("file/nul@%d/junk=%v", pos, junk), b)
		}
	}
	{
		b := V4Packet(o53, end) // both without NUL
		for i := 0; i < 64; i++ {
			b[44+i] = byte('a' + i%26)
		}
		for i := 0; i < 128; i++ {
			b[108+i] = byte('A' + i%26)
		}
		add("sname+file/no-nul", b)
	}
	// 6. hlen over all values, chaddr non-zero throughout
	for h := 0; h < 256; h++ {
		b := V4Packet(o53, end)
		b[2] = byte(h)
		add(fmt.Sprintf("hlen/%d", h), b)
	}
	// 7. the four address fields over six forms each
	forms := [][4]byte{{0, 0, 0, 0}, {255, 255, 255, 255}, {10, 1, 2, 3}, {127, 0, 0, 1}, {224, 0, 0, 1}, {0, 0, 0, 1}}
	for m := 0; m < 6*6*6*6; m++ {
		b := V4Packet(o53, end)
		x := m
		for f := 0; f < 4; f++ {
			copy(b[12+4*f:], forms[x%6][:])
			x /= 6
		}
		add(fmt.Sprintf("addresses/%d", m), b)
	}
	// 8. zero-length options and repeats
	add("zero-length/one", V4Packet(V4Opt(12, nil), end))
	add("zero-length/twice", V4Packet(V4Opt(12, nil), V4Opt(12, nil), end))
	add("zero-length/then-value", V4Packet(V4Opt(12, nil), V4Opt(12, []byte("a")), end))
	add("zero-length/value-then", V4Packet(V4Opt(12, []byte("a")), o53, V4Opt(12, nil), end))
	add("zero-length/82", V4Packet(V4Opt(82, nil), o53, end))
	add("repeat/interleaved", V4Packet(V4Opt(12, []byte("ab")), V4Opt(60, []byte("x")), V4Opt(12, []byte("cd")), V4Opt(60, []byte("y")), end))
	add("repeat/82-first-and-last", V4Packet(V4Opt(82, []byte{1, 1, 'a'}), o53, V4Opt(82, []byte{2, 1, 'b'}), end))
	add("repeat/53", V4Packet(o53, V4Opt(53, []byte{5}), end))
	// 9. every option code with a 0- and a 1-octet value
	for code := 1; code < 255; code++ {
		add(fmt.Sprintf("code%d/len0", code), V4Packet(V4Opt(byte(code), nil), end))
		add(fmt.Sprintf("code%d/len1", code), V4Packet(o53, V4Opt(byte(code), []byte{byte(code)}), end))
	}
	// 10. sizes: exactly 300, 576, 1500 octets (zero padding after End)
	for _, n := range []int{241, 299, 300, 301, 576, 1500} {
		b := V4Packet(o53, o12, end)
		for len(b) < n {
			b = append(b, 0)
		}
		add(fmt.Sprintf("size/%d", len(b)), b)
	}
	// 11. two valid packets: header octets, option-area octets, truncations
	valid := [][]byte{
		V4Packet(V4Opt(53, []byte{1}), V4Opt(55, []byte{1, 3, 6, 15}), V4Opt(61, []byte{1, 1, 2, 3, 4, 5, 6}), end),
		func() []byte {
			b := V4Packet(V4Opt(53, []byte{5}), []byte{0, 0}, V4Opt(82, []byte{1, 4, 'a', 'b', 'c', 'd'}), V4Opt(12, nil), V4Opt(12, []byte("xyz")), end)
			for len(b) < 300 {
				b = append(b, 0)
			}
			return b
		}(),
	}
	for vi, v := range valid {
		for off := 0; off < 236; off++ {
			for _, x := range []byte{0, 1, 0x7f, 0x80, 0xff} {
				b := append([]byte{}, v...)
				b[off] = x
				add(fmt.Sprintf("valid%d/header[%d]=%02x", vi, off, x), b)
			}
		}
		for off := 240; off < len(v) && off < 280; off++ {
			for x := 0; x < 256; x++ {
				b := append([]byte{}, v...)
				b[off] = byte(x)
				add(fmt.Sprintf("valid%d/area[%d]=%02x", vi, off, x), b)
			}
		}
		for t := 236; t <= len(v); t++ {
			add(fmt.Sprintf("valid%d/cut@%d", vi, t), append([]byte{}, v[:t]...))
		}
	}
	// 12. one option with every length octet and l-1 / l / l+1 / l+2 octets behind it (value octets are End codes)
	for l := 0; l < 256; l++ {
		for _, rem := range []int{l - 1, l, l + 1, l + 2} {
			if rem < 0 {
				continue
			}
			b := V4Packet([]byte{43, byte(l)})
			for i := 0; i < rem; i++ {
				b = append(b, 0xff)
			}
			add(fmt.Sprintf("length-octet/%d+%d", l, rem), b)
		}
	}
	return out
}

// ---------------------------------------------------------------- DHCPv6

// TLV6 is code:u16 len:u16 value.
func TLV6(code uint16, v []byte) []byte {
	return cat([]byte{byte(code >> 8), byte(code), byte(len(v) >> 8), byte(len(v))}, v)
}

func be32(x uint32) []byte { return []byte{byte(x >> 24), byte(x >> 16), byte(x >> 8), byte(x)} }

// Hdr6 is a plain message header; RelayHdr6 a relay-forward header.
var (
	Hdr6      = []byte{0x01, 0x01, 0x02, 0x03}
	RelayHdr6 = cat([]byte{12, 1}, corpus6.AddrA, corpus6.AddrB)
)

// Ctx6 is a nesting of containers (outermost first) below a message header.
// Every level is (option code, fixed part before the nested option list).
type Ctx6 struct {
	Name   string
	Hdr    []byte
	Levels []Level6
	NTP    bool // innermost level is the NTP sub-option space
}

type Level6 struct {
	Name   string
	Code   uint16
	Prefix []byte
}

// Wrap assembles hdr + container(…(option tlv)…) with consistent lengths.
func (x Ctx6) Wrap(code uint16, payload []byte) []byte {
	cur := TLV6(code, payload)
	for i := len(x.Levels) - 1; i >= 0; i-- {
		cur = TLV6(x.Levels[i].Code, cat(x.Levels[i].Prefix, cur))
	}
	return cat(x.Hdr, cur)
}

var (
	lvIANA     = Level6{"IA_NA", 3, cat([]byte{1, 2, 3, 4}, be32(0x00010e10), be32(0x00021518))}
	lvIATA     = Level6{"IA_TA", 4, []byte{1, 2, 3, 4}}
	lvIAPD     = Level6{"IA_PD", 25, cat([]byte{1, 2, 3, 4}, be32(0x00010e10), be32(0x00021518))}
	lvIAAddr   = Level6{"IAADDR", 5, cat(corpus6.AddrA, be32(0x00010e10), be32(0x00021518))}
	lvIAPrefix = Level6{"IAPREFIX", 26, cat(be32(0x00010e10), be32(0x00021518), []byte{56}, corpus6.AddrA)}
	lvVendor   = Level6{"vendor-opts", 17, be32(0x01020304)}
	lvNTP      = Level6{"NTP", 56, nil}
	lv4RD      = Level6{"4RD", 97, nil}
	lvRelayMsg = Level6{"relay-msg", 9, []byte{0x03, 0x0a, 0x0b, 0x0c}}
)

// Contexts6 returns the nesting contexts: top level of a message and of a relay
// message, inside each of the nine container kinds, and three deeper stacks.
func Contexts6() []Ctx6 {
	out := []Ctx6{{Name: "top", Hdr: Hdr6}, {Name: "top(relay)", Hdr: RelayHdr6}}
	for _, lv := range []Level6{lvIANA, lvIATA, lvIAPD, lvIAAddr, lvIAPrefix, lvVendor, lvNTP, lv4RD, lvRelayMsg} {
		out = append(out, Ctx6{Name: "in " + lv.Name, Hdr: Hdr6, Levels: []Level6{lv}, NTP: lv.Name == "NTP"})
	}
	out = append(out,
		Ctx6{Name: "in IA_NA>IAADDR", Hdr: Hdr6, Levels: []Level6{lvIANA, lvIAAddr}},
		Ctx6{Name: "in IA_PD>IAPREFIX", Hdr: Hdr6, Levels: []Level6{lvIAPD, lvIAPrefix}},
		Ctx6{Name: "in relay-msg>IA_NA (relay)", Hdr: RelayHdr6, Levels: []Level6{lvRelayMsg, lvIANA}},
	)
	return out
}

// NTPContexts6: the contexts whose innermost level is the NTP sub-option space.
func NTPContexts6() []Ctx6 {
	return []Ctx6{
		{Name: "in NTP (sub-option space)", Hdr: Hdr6, Levels: []Level6{lvNTP}, NTP: true},
		{Name: "in relay-msg>NTP (sub-option space, relay)", Hdr: RelayHdr6, Levels: []Level6{lvRelayMsg, lvNTP}, NTP: true},
	}
}

// V6OutOfRange returns the hand-assembled non-canonical / out-of-range DHCPv6
// inputs of the C06 statement's quantifier (see Run for the list).
var v4Mapped = cat(make([]byte, 10), []byte{0xff, 0xff, 192, 0, 2, 33})

func V6OutOfRange() []Named {
	var out []Named
	add := func(name string, b []byte) { out = append(out, Named{"v6/" + name, b}) }
	top := Ctx6{Name: "top", Hdr: Hdr6}
	rel := Ctx6{Name: "top(relay)", Hdr: RelayHdr6}
	inPD := Ctx6{Name: "in IA_PD", Hdr: Hdr6, Levels: []Level6{lvIAPD}}
	relPD := Ctx6{Name: "in relay-msg>IA_PD (relay)", Hdr: RelayHdr6, Levels: []Level6{lvRelayMsg, lvIAPD}}
	in4RD := Ctx6{Name: "in 4RD", Hdr: Hdr6, Levels: []Level6{lv4RD}}
	inPD4RD := Ctx6{Name: "in IA_PD>4RD", Hdr: Hdr6, Levels: []Level6{lvIAPD, lv4RD}}
	status := TLV6(13, []byte{0, 0, 'o', 'k'})

	// IAPREFIX: every prefix-length octet (simplest first: the bare option at top level)
	addrs := []struct {
		n string
		a []byte
	}{{"A", corpus6.AddrA}, {"zero", corpus6.AddrZero}, {"ones", corpus6.AddrOnes}, {"v4-mapped", v4Mapped}}
	for _, x := range []Ctx6{top, inPD, rel, relPD} {
		for _, ad := range addrs {
			for _, nested := range [][]byte{nil, status} {
				for l := 0; l < 256; l++ {
					p := cat(be32(0x00010e10), be32(0x00021518), []byte{byte(l)}, ad.a, nested)
					add(fmt.Sprintf("IAPREFIX/len%d/addr-%s/nested%d/%s", l, ad.n, len(nested), x.Name), x.Wrap(26, p))
				}
			}
		}
	}
	// 4RD map rule: prefix4 length x prefix6 length (crosses), every flags octet
	p4 := []byte{192, 0, 2, 17}
	rule := func(l4, l6, ea, fl int) []byte {
		return cat([]byte{byte(l4), byte(l6), byte(ea), byte(fl)}, p4, corpus6.AddrA)
	}
	for _, x := range []Ctx6{top, in4RD, inPD4RD} {
		for l4 := 0; l4 < 256; l4++ {
			for _, l6 := range []int{0, 1, 64, 127, 128, 129, 200, 255} {
				add(fmt.Sprintf("4RD-map/p4len%d/p6len%d/%s", l4, l6, x.Name), x.Wrap(98, rule(l4, l6, 16, 0)))
			}
		}
		for l6 := 0; l6 < 256; l6++ {
			for _, l4 := range []int{0, 1, 24, 31, 32, 33, 128, 255} {
				add(fmt.Sprintf("4RD-map/p4len%d/p6len%d/ea0/%s", l4, l6, x.Name), x.Wrap(98, rule(l4, l6, 0, 0x80)))
			}
		}
		for fl := 0; fl < 256; fl++ {
			add(fmt.Sprintf("4RD-map/flags%02x/%s", fl, x.Name), x.Wrap(98, rule(24, 48, 16, fl)))
			for _, tc := range []byte{0, 7, 0xff} {
				for _, mtu := range [][]byte{{0, 0}, {5, 0}, {0xff, 0xff}} {
					add(fmt.Sprintf("4RD-nonmap/flags%02x/tc%02x/mtu%x/%s", fl, tc, mtu, x.Name), x.Wrap(99, cat([]byte{byte(fl), tc}, mtu)))
				}
			}
		}
	}
	// FQDN: every flags octet x {no name, complete name, trailing partial name, two names}
	for fl := 0; fl < 256; fl++ {
		for i, nm := range [][]byte{nil, {1, 'a', 0}, {1, 'a'}, {1, 'a', 0, 2, 'b', 'c', 0}, {0}} {
			add(fmt.Sprintf("FQDN/flags%02x/name%d", fl, i), top.Wrap(39, cat([]byte{byte(fl)}, nm)))
		}
	}
	// ORO: every sequence over four codes up to five entries (duplicates in every position)
	oc := [][]byte{{0, 1}, {0, 23}, {0, 24}, {0xff, 0xff}}
	for n := 0; n <= 5; n++ {
		tot := 1
		for i := 0; i < n; i++ {
			tot *= 4
		}
		for m := 0; m < tot; m++ {
			var p []byte
			x := m
			for i := 0; i < n; i++ {
				p = append(p, oc[x%4]...)
				x /= 4
			}
			add(fmt.Sprintf("ORO/%d/%d", n, m), top.Wrap(6, p))
			if n >= 2 {
				add(fmt.Sprintf("ORO/%d/%d/relayed", n, m), Ctx6{Hdr: RelayHdr6, Levels: []Level6{lvRelayMsg}}.Wrap(6, p))
			}
		}
	}
	// durations: T1/T2, lifetimes, refresh time over the extremes; elapsed time extremes (all 65536 values are a Range in Run)
	ext := []uint32{0, 1, 0x7fffffff, 0x80000000, 0xfffffffe, 0xffffffff, 0x01020304}
	for _, a := range ext {
		add(fmt.Sprintf("info-refresh/%08x", a), top.Wrap(32, be32(a)))
		for _, b := range ext {
			add(fmt.Sprintf("IA_NA/T1=%08x/T2=%08x", a, b), top.Wrap(3, cat([]byte{1, 2, 3, 4}, be32(a), be32(b))))
			add(fmt.Sprintf("IA_PD/T1=%08x/T2=%08x", a, b), top.Wrap(25, cat([]byte{1, 2, 3, 4}, be32(a), be32(b))))
			add(fmt.Sprintf("IAADDR/pref=%08x/valid=%08x", a, b), Ctx6{Hdr: Hdr6, Levels: []Level6{lvIANA}}.Wrap(5, cat(corpus6.AddrB, be32(a), be32(b))))
			add(fmt.Sprintf("IAPREFIX/pref=%08x/valid=%08x", a, b), inPD.Wrap(26, cat(be32(a), be32(b), []byte{64}, corpus6.AddrA)))
		}
	}
	// addresses in special 16-octet forms (hand-assembled: the library's own encoder is not involved), in every
	// address-bearing position: IAADDR, IAPREFIX, DNS, relay link / peer at two nesting levels
	for _, ad := range []struct {
		n string
		a []byte
	}{{"v4-mapped", v4Mapped}, {"v4-compatible", cat(make([]byte, 12), []byte{192, 0, 2, 33})}, {"loopback", cat(make([]byte, 15), []byte{1})}, {"multicast", cat([]byte{0xff, 0x02}, make([]byte, 13), []byte{2})}} {
		add("special-addr/IAADDR/"+ad.n, Ctx6{Hdr: Hdr6, Levels: []Level6{lvIANA}}.Wrap(5, cat(ad.a, be32(30), be32(60))))
		add("special-addr/IAADDR-top/"+ad.n, top.Wrap(5, cat(ad.a, be32(30), be32(60))))
		add("special-addr/IAPREFIX/"+ad.n, inPD.Wrap(26, cat(be32(30), be32(60), []byte{96}, ad.a)))
		add("special-addr/DNS/"+ad.n, top.Wrap(23, cat(ad.a, corpus6.AddrA)))
		inner := cat(Hdr6, TLV6(8, []byte{0, 1}))
		lvl1 := cat([]byte{12, 0}, ad.a, corpus6.AddrB, TLV6(9, inner))
		add("special-addr/relay-link/"+ad.n, lvl1)
		add("special-addr/relay-peer/"+ad.n, cat([]byte{12, 0}, corpus6.AddrA, ad.a, TLV6(9, inner)))
		add("special-addr/relay-nested/"+ad.n, cat([]byte{12, 1}, corpus6.AddrA, corpus6.AddrB, TLV6(9, lvl1)))
	}
	// relay header: every hop count; both relay types; every message type with a 4- and a 34-octet header
	for h := 0; h < 256; h++ {
		for _, t := range []byte{12, 13} {
			b := append([]byte{}, RelayHdr6...)
			b[0], b[1] = t, byte(h)
			add(fmt.Sprintf("relay/type%d/hop%d", t, h), cat(b, TLV6(9, cat(Hdr6, TLV6(8, []byte{0, 1})))))
		}
		b := make([]byte, 34)
		b[0] = byte(h)
		add(fmt.Sprintf("type%d/34-octets", h), cat(b, TLV6(14, nil)))
		add(fmt.Sprintf("type%d/4-octets", h), cat([]byte{byte(h), 9, 8, 7}, TLV6(14, nil)))
	}
	// status code: extremes x message texts (NUL, invalid UTF-8)
	for _, code := range [][]byte{{0, 0}, {0, 6}, {0x01, 0x02}, {0xff, 0xff}} {
		for i, txt := range [][]byte{nil, []byte("a"), {0}, {'x', 0, 0}, {0xff, 0xfe}, []byte("é"), []byte(" y \n")} {
			add(fmt.Sprintf("status/%x/text%d", code, i), top.Wrap(13, cat(code, txt)))
		}
	}
	// DUIDs: every type 0..5, 255, 65535 x value length 0..20
	for _, code := range []uint16{1, 2} {
		for _, t := range []uint16{0, 1, 2, 3, 4, 5, 255, 65535} {
			for n := 0; n <= 20; n++ {
				add(fmt.Sprintf("duid/opt%d/type%d/len%d", code, t, n), top.Wrap(code, cat([]byte{byte(t >> 8), byte(t)}, corpus6.Bytes(n, 0x30))))
			}
		}
	}
	// length-prefixed item lists (user class 15, vendor class 16, boot-file parameters 60): every sequence of up to
	// three items over {empty, "a", "bc"} — empty items in every position
	items := [][]byte{{0, 0}, {0, 1, 'a'}, {0, 2, 'b', 'c'}}
	for n := 0; n <= 3; n++ {
		tot := 1
		for i := 0; i < n; i++ {
			tot *= 3
		}
		for m := 0; m < tot; m++ {
			var p []byte
			x := m
			for i := 0; i < n; i++ {
				p = append(p, items[x%3]...)
				x /= 3
			}
			add(fmt.Sprintf("user-class/%d/%d", n, m), top.Wrap(15, p))
			add(fmt.Sprintf("vendor-class/%d/%d", n, m), top.Wrap(16, cat(be32(0x01020304), p)))
			add(fmt.Sprintf("bootfile-param/%d/%d", n, m), top.Wrap(60, p))
		}
	}
	// compressed names written out (the exhaustive name alphabets are a Range in Run)
	ex := []byte{7, 'e', 'x', 'a', 'm', 'p', 'l', 'e', 3, 'c', 'o', 'm', 0}
	for i, nm := range [][]byte{
		cat(ex, []byte{3, 's', 'u', 'b', 0xc0, 0}),                        // sub.example.com via pointer to offset 0
		cat(ex, []byte{3, 's', 'u', 'b', 0xc0, 8}),                        // sub.com via pointer into the middle
		cat(ex, []byte{0xc0, 0}),                                          // a bare pointer
		cat(ex, []byte{1, 'a', 0xc0, 0, 1, 'b', 0xc0, 8, 1, 'c', 0}),      // three names, two pointers
		cat(ex, []byte{3, 's', 'u', 'b'}),                                 // trailing partial name
		cat(ex, []byte{3, 's', 'u', 'b', 0xc0, 0, 4, 'p', 'a', 'r', 't'}), // pointer then partial
		{3, 'f', 'o', 'o', 0, 3, 'b', 'a', 'r', 0xc0, 0},                  // bar.foo
		{1, 'a', 0, 0xc0, 0, 0xc0, 0},                                     // the same name three times
		{0}, {0, 0}, {1, 'a', 0, 0},                                       // root names
		cat([]byte{63}, []byte(corpus6.Label63), []byte{0, 1, 'z', 0xc0, 0}), // maximal label + pointer
	} {
		add(fmt.Sprintf("names/domain-list/%d", i), top.Wrap(24, nm))
		add(fmt.Sprintf("names/domain-list-relayed/%d", i), Ctx6{Hdr: RelayHdr6, Levels: []Level6{lvRelayMsg}}.Wrap(24, nm))
		add(fmt.Sprintf("names/fqdn/%d", i), top.Wrap(39, cat([]byte{1}, nm)))
		add(fmt.Sprintf("names/ntp-fqdn/%d", i), Ctx6{Hdr: Hdr6, Levels: []Level6{lvNTP}}.Wrap(3, nm))
		add(fmt.Sprintf("names/ntp-fqdn-after-srv/%d", i), cat(Hdr6, TLV6(56, cat(TLV6(1, corpus6.AddrA), TLV6(3, nm), TLV6(2, corpus6.AddrB)))))
	}
	return out
}

// V4In6 wraps DHCPv4 packets in a DHCPv4-query message (option 87), bare and relayed.
func V4In6(l []Named) []Named {
	var out []Named
	for _, n := range l {
		if len(n.B) > 65000 {
			continue
		}
		out = append(out, Named{"v4-in-v6/" + n.Name, cat([]byte{20, 0, 0, 1}, TLV6(87, n.B))})
	}
	return out
}
