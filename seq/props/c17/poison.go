package c17

// History clause: a caller may do what it likes with what an accessor returned (invert a mask to
// compute a broadcast address, sort a list, reuse a slice). The next call of the accessor - on
// the same packet or on any other - still has to give the RFC reading of the raw bytes. So after
// every comparison the result of the accessor is fetched once more, scribbled over in place
// (every byte of every slice reachable from it, every map given an extra key), and the
// accessor is compared with the reference again.

import (
	"reflect"
	"time"

	"github.com/insomniacslk/dhcp/dhcpv4"
	"verif/seq/fw"
)

func scribble(v reflect.Value, depth int) {
	if depth > 8 || !v.IsValid() {
		return
	}
	switch v.Kind() {
	case reflect.Ptr, reflect.Interface:
		if !v.IsNil() {
			scribble(v.Elem(), depth+1)
		}
	case reflect.Slice:
		if v.IsNil() {
			return
		}
		if v.Type().Elem().Kind() == reflect.Uint8 && v.Len() > 0 {
			if b, ok := v.Convert(reflect.TypeOf([]byte(nil))).Interface().([]byte); ok && fw.StdShared(b) {
				return // a shared standard address value (net.IPv4zero, ...): not the caller's to overwrite
			}
		}
		fallthrough
	case reflect.Array:
		for i := 0; i < v.Len(); i++ {
			e := v.Index(i)
			switch e.Kind() {
			case reflect.Uint8, reflect.Uint16, reflect.Uint32, reflect.Uint64:
				if e.CanSet() {
					e.SetUint(0xee)
				}
			case reflect.String:
				if e.CanSet() {
					e.SetString("poison")
				}
			default:
				scribble(e, depth+1)
			}
		}
	case reflect.Struct:
		for i := 0; i < v.NumField(); i++ {
			if v.Type().Field(i).IsExported() {
				scribble(v.Field(i), depth+1)
			}
		}
	case reflect.Map:
		if v.IsNil() {
			return
		}
		for _, k := range v.MapKeys() {
			scribble(v.MapIndex(k), depth+1)
		}
		if v.Type().Key().Kind() == reflect.Uint8 && v.Type().Elem().Kind() == reflect.Slice {
			v.SetMapIndex(reflect.ValueOf(uint8(0xee)).Convert(v.Type().Key()), reflect.ValueOf([]byte("poison")).Convert(v.Type().Elem()))
		}
	}
}

// poisonResult calls the accessor once more and scribbles over everything it returned.
func poisonResult(a *acc, p *dhcpv4.DHCPv4) {
	var res []reflect.Value
	switch a.Name {
	case "GetIP":
		res = []reflect.Value{reflect.ValueOf(dhcpv4.GetIP(helper, p.Options))}
	case "GetIPs":
		res = []reflect.Value{reflect.ValueOf(dhcpv4.GetIPs(helper, p.Options))}
	case "GetString", "GetUint16", "GetByte":
		return // values without mutable parts
	default:
		m := reflect.ValueOf(p).MethodByName(a.Name)
		if !m.IsValid() {
			return
		}
		switch m.Type().NumIn() {
		case 0:
			res = m.Call(nil)
		case 1:
			if m.Type().In(0) != reflect.TypeOf(time.Duration(0)) {
				return
			}
			res = m.Call([]reflect.Value{reflect.ValueOf(time.Duration(0))})
		default:
			return
		}
	}
	for _, r := range res {
		scribble(r, 0)
	}
}
