// Package c17: DHCPv4 typed accessors agree with the raw option bytes.
//
// Get direction: for every typed accessor of *dhcpv4.DHCPv4 and every exported
// GetX helper, a bounded-exhaustive set of raw option values is put into the
// packet (directly into p.Options, and through ToBytes/FromBytes) and the
// accessor's result is compared with the independent reference reading
// v4opt.Interpret. Set direction: every exported typed constructor over its
// boundary domain, stored with UpdateOption (or its With… modifier) and read
// back through the typed accessor.
package c17

import (
	"bytes"
	"encoding/hex"
	"fmt"
	"net"
	"runtime/debug"
	"sort"
	"strings"
	"sync/atomic"
	"time"

	"github.com/insomniacslk/dhcp/dhcpv4"
	"github.com/insomniacslk/dhcp/iana"
	"github.com/insomniacslk/dhcp/rfc1035label"
	"verif/seq/fw"
	"verif/seq/ref/v4opt"
)

// ---- library result -> canonical form ---------------------------------------

func canonIP(ip net.IP) string {
	if len(ip) == 0 {
		return "nil"
	}
	v := ip.To4()
	if v == nil {
		return "badip:" + hex.EncodeToString(ip)
	}
	return v4opt.CanonIP([4]byte(v))
}

func canonIPs(ips []net.IP) string {
	if len(ips) == 0 {
		return "nil"
	}
	as := make([][4]byte, 0, len(ips))
	for _, ip := range ips {
		v := ip.To4()
		if v == nil {
			return "badips:" + fmt.Sprint(ips)
		}
		as = append(as, [4]byte(v))
	}
	return v4opt.CanonIPs(as)
}

func canonMask(m net.IPMask) string {
	if len(m) == 0 {
		return "nil"
	}
	if len(m) != 4 {
		return "badmask:" + hex.EncodeToString(m)
	}
	return v4opt.CanonMask([4]byte(m))
}

var (
	defA = 3*time.Hour + 123456789*time.Nanosecond // not a whole number of seconds: cannot collide with a decoded value
	defB = -5*time.Second - time.Nanosecond
)

func canonSeconds(d time.Duration) string {
	if d < 0 || d%time.Second != 0 || d/time.Second > 0xffffffff {
		return fmt.Sprintf("dur:%dns", int64(d))
	}
	return v4opt.CanonU32(uint32(d / time.Second))
}

// canonDur calls a "value or the caller's default" accessor with two different defaults.
func canonDur(f func(def time.Duration) time.Duration) string {
	r1, r2 := f(defA), f(defB)
	if r1 == defA && r2 == defB {
		return "default"
	}
	if r1 != r2 {
		return fmt.Sprintf("inconsistent:%dns/%dns", int64(r1), int64(r2))
	}
	return canonSeconds(r1)
}

func canonRoutes(rs []*dhcpv4.Route) string {
	if len(rs) == 0 {
		return "nil"
	}
	var sb strings.Builder
	sb.WriteString("routes:")
	for i, r := range rs {
		if i > 0 {
			sb.WriteByte(';')
		}
		if r == nil || r.Dest == nil {
			sb.WriteString("<nil route>")
			continue
		}
		d, g := r.Dest.IP.To4(), r.Router.To4()
		if d == nil || g == nil || len(r.Dest.Mask) != 4 {
			fmt.Fprintf(&sb, "<bad route %v %v %v>", []byte(r.Dest.IP), []byte(r.Dest.Mask), []byte(r.Router))
			continue
		}
		v4opt.CanonRoute(&sb, d, r.Dest.Mask, g)
	}
	return sb.String()
}

func canonVIVC(ids dhcpv4.VIVCIdentifiers) string {
	items := make([]v4opt.VIVCItem, 0, len(ids))
	for _, id := range ids {
		if id.EntID < 0 || int64(id.EntID) > 0xffffffff {
			return fmt.Sprintf("badvivc:%v", ids)
		}
		items = append(items, v4opt.VIVCItem{Ent: uint32(id.EntID), Data: id.Data})
	}
	return v4opt.CanonVIVC(items)
}

func canonArchs(as []iana.Arch) string {
	vs := make([]uint16, len(as))
	for i, a := range as {
		vs[i] = uint16(a)
	}
	return v4opt.CanonU16s(vs)
}

func canonLabels(l *rfc1035label.Labels) string {
	if l == nil {
		return "nil"
	}
	return v4opt.CanonStrs("names", l.Labels)
}

func canonRelay(r *dhcpv4.RelayOptions) string {
	if r == nil {
		return "nil"
	}
	m := map[uint8][]byte{}
	for k, v := range r.Options {
		m[k] = v
	}
	return v4opt.CanonRelay(m)
}

func canonCodes(l dhcpv4.OptionCodeList) string {
	b := make([]byte, len(l))
	for i, c := range l {
		b[i] = c.Code()
	}
	return v4opt.CanonCodes(b)
}

func canonU16Err(v uint16, err error) string {
	if err != nil {
		if v != 0 {
			return fmt.Sprintf("error-with-value:%d", v)
		}
		return "error"
	}
	return v4opt.CanonU16(v)
}

// ---- accessor table -----------------------------------------------------------

type acc struct {
	v4opt.Accessor
	get  func(p *dhcpv4.DHCPv4) string
	expr string // Go expression for the emitted test
	idx  int
}

var helper = dhcpv4.GenericOptionCode(v4opt.HelperCode)

var getters = map[string]struct {
	get  func(p *dhcpv4.DHCPv4) string
	expr string
}{
	"BroadcastAddress":       {func(p *dhcpv4.DHCPv4) string { return canonIP(p.BroadcastAddress()) }, "p.BroadcastAddress()"},
	"RequestedIPAddress":     {func(p *dhcpv4.DHCPv4) string { return canonIP(p.RequestedIPAddress()) }, "p.RequestedIPAddress()"},
	"ServerIdentifier":       {func(p *dhcpv4.DHCPv4) string { return canonIP(p.ServerIdentifier()) }, "p.ServerIdentifier()"},
	"Router":                 {func(p *dhcpv4.DHCPv4) string { return canonIPs(p.Router()) }, "p.Router()"},
	"DNS":                    {func(p *dhcpv4.DHCPv4) string { return canonIPs(p.DNS()) }, "p.DNS()"},
	"NTPServers":             {func(p *dhcpv4.DHCPv4) string { return canonIPs(p.NTPServers()) }, "p.NTPServers()"},
	"NetBIOSNameServers":     {func(p *dhcpv4.DHCPv4) string { return canonIPs(p.NetBIOSNameServers()) }, "p.NetBIOSNameServers()"},
	"SubnetMask":             {func(p *dhcpv4.DHCPv4) string { return canonMask(p.SubnetMask()) }, "p.SubnetMask()"},
	"IPAddressLeaseTime":     {func(p *dhcpv4.DHCPv4) string { return canonDur(p.IPAddressLeaseTime) }, "p.IPAddressLeaseTime(-time.Nanosecond)"},
	"IPAddressRenewalTime":   {func(p *dhcpv4.DHCPv4) string { return canonDur(p.IPAddressRenewalTime) }, "p.IPAddressRenewalTime(-time.Nanosecond)"},
	"IPAddressRebindingTime": {func(p *dhcpv4.DHCPv4) string { return canonDur(p.IPAddressRebindingTime) }, "p.IPAddressRebindingTime(-time.Nanosecond)"},
	"IPv6OnlyPreferred": {func(p *dhcpv4.DHCPv4) string {
		d, ok := p.IPv6OnlyPreferred()
		if !ok {
			if d != 0 {
				return fmt.Sprintf("notok-with-value:%dns", int64(d))
			}
			return "default"
		}
		return canonSeconds(d)
	}, "p.IPv6OnlyPreferred()"},
	"MaxMessageSize": {func(p *dhcpv4.DHCPv4) string { return canonU16Err(p.MaxMessageSize()) }, "p.MaxMessageSize()"},
	"AutoConfigure": {func(p *dhcpv4.DHCPv4) string {
		v, ok := p.AutoConfigure()
		if !ok {
			if v != 0 {
				return fmt.Sprintf("notok-with-value:%d", v)
			}
			return "default"
		}
		return v4opt.CanonU8(uint8(v))
	}, "p.AutoConfigure()"},
	"MessageType":          {func(p *dhcpv4.DHCPv4) string { return v4opt.CanonU8(uint8(p.MessageType())) }, "p.MessageType()"},
	"DomainName":           {func(p *dhcpv4.DHCPv4) string { return v4opt.CanonStr(p.DomainName()) }, "p.DomainName()"},
	"RootPath":             {func(p *dhcpv4.DHCPv4) string { return v4opt.CanonStr(p.RootPath()) }, "p.RootPath()"},
	"ClassIdentifier":      {func(p *dhcpv4.DHCPv4) string { return v4opt.CanonStr(p.ClassIdentifier()) }, "p.ClassIdentifier()"},
	"Message":              {func(p *dhcpv4.DHCPv4) string { return v4opt.CanonStr(p.Message()) }, "p.Message()"},
	"HostName":             {func(p *dhcpv4.DHCPv4) string { return v4opt.CanonStr(p.HostName()) }, "p.HostName()"},
	"BootFileNameOption":   {func(p *dhcpv4.DHCPv4) string { return v4opt.CanonStr(p.BootFileNameOption()) }, "p.BootFileNameOption()"},
	"TFTPServerName":       {func(p *dhcpv4.DHCPv4) string { return v4opt.CanonStr(p.TFTPServerName()) }, "p.TFTPServerName()"},
	"ParameterRequestList": {func(p *dhcpv4.DHCPv4) string { return canonCodes(p.ParameterRequestList()) }, "p.ParameterRequestList()"},
	"ClasslessStaticRoute": {func(p *dhcpv4.DHCPv4) string { return canonRoutes(p.ClasslessStaticRoute()) }, "p.ClasslessStaticRoute()"},
	"UserClass":            {func(p *dhcpv4.DHCPv4) string { return v4opt.CanonStrs("strs", p.UserClass()) }, "p.UserClass()"},
	"VIVC":                 {func(p *dhcpv4.DHCPv4) string { return canonVIVC(p.VIVC()) }, "p.VIVC()"},
	"ClientArch":           {func(p *dhcpv4.DHCPv4) string { return canonArchs(p.ClientArch()) }, "p.ClientArch()"},
	"DomainSearch":         {func(p *dhcpv4.DHCPv4) string { return canonLabels(p.DomainSearch()) }, "p.DomainSearch()"},
	"RelayAgentInfo":       {func(p *dhcpv4.DHCPv4) string { return canonRelay(p.RelayAgentInfo()) }, "p.RelayAgentInfo()"},
	"GetIP":                {func(p *dhcpv4.DHCPv4) string { return canonIP(dhcpv4.GetIP(helper, p.Options)) }, "dhcpv4.GetIP(dhcpv4.GenericOptionCode(224), p.Options)"},
	"GetIPs":               {func(p *dhcpv4.DHCPv4) string { return canonIPs(dhcpv4.GetIPs(helper, p.Options)) }, "dhcpv4.GetIPs(dhcpv4.GenericOptionCode(224), p.Options)"},
	"GetString":            {func(p *dhcpv4.DHCPv4) string { return v4opt.CanonStr(dhcpv4.GetString(helper, p.Options)) }, "dhcpv4.GetString(dhcpv4.GenericOptionCode(224), p.Options)"},
	"GetUint16":            {func(p *dhcpv4.DHCPv4) string { return canonU16Err(dhcpv4.GetUint16(helper, p.Options)) }, "dhcpv4.GetUint16(dhcpv4.GenericOptionCode(224), p.Options)"},
	"GetByte": {func(p *dhcpv4.DHCPv4) string {
		v, err := dhcpv4.GetByte(helper, p.Options)
		if err != nil {
			if v != 0 {
				return fmt.Sprintf("error-with-value:%d", v)
			}
			return "default"
		}
		return v4opt.CanonU8(v)
	}, "dhcpv4.GetByte(dhcpv4.GenericOptionCode(224), p.Options)"},
}

func accessors() []*acc {
	var out []*acc
	for i, a := range v4opt.Accessors {
		g, ok := getters[a.Name]
		if !ok {
			panic("c17: no getter for " + a.Name)
		}
		out = append(out, &acc{Accessor: a, get: g.get, expr: g.expr, idx: i})
	}
	return out
}

func accByName(as []*acc, n string) *acc {
	for _, a := range as {
		if a.Name == n {
			return a
		}
	}
	panic("c17: unknown accessor " + n)
}

// ---- packets --------------------------------------------------------------------

// decoyCodes are all option codes some accessor reads. Every generated packet
// carries, under every such code except the one under test, a distinct 4-byte
// value (well-formed for addresses, address lists, masks, durations, strings,
// code lists and architecture lists), so that an accessor reading a
// neighbouring option is seen.
var decoyCodes = func() []uint8 {
	seen := map[uint8]bool{}
	var out []uint8
	for _, a := range v4opt.Accessors {
		if !seen[a.Code] {
			seen[a.Code] = true
			out = append(out, a.Code)
		}
	}
	sort.Slice(out, func(i, j int) bool { return out[i] < out[j] })
	return out
}()

func basePacket(opts dhcpv4.Options) *dhcpv4.DHCPv4 {
	return &dhcpv4.DHCPv4{
		OpCode: dhcpv4.OpcodeBootRequest, HWType: iana.HWTypeEthernet,
		TransactionID: dhcpv4.TransactionID{0x11, 0x22, 0x33, 0x44},
		ClientHWAddr:  net.HardwareAddr{2, 0, 0, 0, 0, 1},
		ClientIPAddr:  net.IP{0, 0, 0, 0}, YourIPAddr: net.IP{0, 0, 0, 0}, ServerIPAddr: net.IP{0, 0, 0, 0}, GatewayIPAddr: net.IP{0, 0, 0, 0},
		Options: opts,
	}
}

// build makes a fresh packet with raw under code (absent if !present).
func build(code uint8, present bool, raw []byte, decoys bool) *dhcpv4.DHCPv4 {
	var opts dhcpv4.Options
	if decoys {
		opts = make(dhcpv4.Options, len(decoyCodes)+1)
		blk := make([]byte, 4*len(decoyCodes))
		for i, c := range decoyCodes {
			if c == code {
				continue
			}
			v := blk[4*i : 4*i+4 : 4*i+4]
			v[0], v[1], v[2], v[3] = 0xde, c, 0xc0, 0x01
			opts[c] = v
		}
	} else {
		opts = make(dhcpv4.Options, 1)
	}
	if present {
		opts[code] = append(make([]byte, 0, len(raw)), raw...) // fresh, non-nil even when empty
	}
	return basePacket(opts)
}

// ---- the comparison -----------------------------------------------------------

type stats struct {
	wellformed  atomic.Int64 // evaluations with a well-formed raw value
	malformed   atomic.Int64
	absent      atomic.Int64
	zeroLen     atomic.Int64
	unspecified atomic.Int64
	wire        atomic.Int64
	wireChanged atomic.Int64
	perAcc      []atomic.Int64
	unspec      [][]atomic.Int64 // [accessor][why]
}

// the UNSPECIFIED classes of v4opt, for lock-free counting
var unspecWhys = []string{"suboption-code-0-or-255", "pointer-or-reserved-label-type", "dot-inside-label", "name-longer-than-255", "unterminated-name", "other"}

func whyIdx(w string) int {
	for i, x := range unspecWhys {
		if x == w {
			return i
		}
	}
	return len(unspecWhys) - 1
}

type checker struct {
	c  *fw.Ctx
	st *stats
}

func goTest(a *acc, present bool, raw []byte, wire bool) string {
	var sb strings.Builder
	sb.WriteString("func TestReplay(t *testing.T) {\n")
	if present {
		fmt.Fprintf(&sb, "\traw, _ := hex.DecodeString(%q)\n\tp := &dhcpv4.DHCPv4{Options: dhcpv4.Options{%d: raw}}\n", fw.Hex(raw), a.Code)
	} else {
		sb.WriteString("\tp := &dhcpv4.DHCPv4{Options: dhcpv4.Options{}}\n")
	}
	if wire {
		sb.WriteString("\tp, err := dhcpv4.FromBytes(p.ToBytes())\n\tif err != nil {\n\t\tt.Fatal(err)\n\t}\n")
	}
	fmt.Fprintf(&sb, "\tt.Logf(\"%%#v\", fmt.Sprint(%s))\n}", a.expr)
	return sb.String()
}

// check compares accessor a on packet p with the reference reading of p's own
// raw option value. Returns the class of the reference verdict.
func (k *checker) check(a *acc, p *dhcpv4.DHCPv4, scope string, order int64, wire bool) v4opt.Class {
	v, present := p.Options[a.Code]
	raw := append([]byte(nil), v...) // reference works on a private copy
	ref := v4opt.Interpret(a.Kind, present, raw)
	var got string
	if pv, st := fw.Safe(func() { got = a.get(p) }); pv != nil {
		k.c.Report(fw.Violation{Fingerprint: a.Name + "|panic|" + fw.PanicSite(st), Order: order, Scope: scope,
			Input: fmt.Sprintf("option %d = %s", a.Code, fw.Hex(raw)), Observed: fmt.Sprintf("panic: %v at %s", pv, st),
			Expected: "a value or the documented default", GoTest: goTest(a, present, raw, wire)})
		return ref.Class
	}
	switch {
	case !present:
		k.st.absent.Add(1)
	case ref.Class == v4opt.Unspecified:
		k.st.unspecified.Add(1)
		k.st.unspec[a.idx][whyIdx(ref.Why)].Add(1)
		return ref.Class // no panic is all that is demanded
	case len(raw) == 0:
		k.st.zeroLen.Add(1)
	case ref.Class == v4opt.OK:
		k.st.wellformed.Add(1)
	default:
		k.st.malformed.Add(1)
	}
	zeroOK := present && len(raw) == 0 && got == v4opt.Interpret(a.Kind, false, nil).Canon // DESIGN.md §8a item 4: a zero-length value and an absent option are identified
	if got == ref.Canon || zeroOK {
		// history: the caller overwrites what the accessor returned, then asks again
		var got2 string
		if pv, st := fw.Safe(func() { poisonResult(a, p); got2 = a.get(p) }); pv != nil {
			k.c.Report(fw.Violation{Fingerprint: a.Name + "|panic-after-editing-an-earlier-result|" + fw.PanicSite(st), Order: order, Scope: scope,
				Input: fmt.Sprintf("option %d = %s", a.Code, fw.Hex(raw)), Observed: fmt.Sprintf("panic: %v at %s", pv, st),
				Expected: "a value or the documented default", GoTest: goTest(a, present, raw, wire)})
		} else {
			// the reference reads whatever the raw bytes are NOW: if the result aliased them (not forbidden by
			// the statement) both sides move together; state outside the packet must not matter
			v2, present2 := p.Options[a.Code]
			raw2 := append([]byte(nil), v2...)
			ref2 := v4opt.Interpret(a.Kind, present2, raw2)
			zero2 := present2 && len(raw2) == 0 && got2 == v4opt.Interpret(a.Kind, false, nil).Canon
			if ref2.Class != v4opt.Unspecified && got2 != ref2.Canon && !zero2 {
				in := "option absent"
				if present {
					in = fmt.Sprintf("option %d = %s (%d bytes)", a.Code, fw.Hex(raw), len(raw))
				}
				k.c.Report(fw.Violation{Fingerprint: a.Name + "|second-read-differs-after-editing-the-first-result", Order: order, Scope: scope, Input: in,
					Observed: a.expr + " = " + got2 + " (second call, after every byte of the first result was overwritten in place; raw option now " + fw.Hex(raw2) + ")", Expected: ref2.Canon,
					Explain: "the value an accessor returns shares memory with state outside the packet's raw option: editing it changed what the accessor returns next",
					GoTest:  goTest(a, present, raw, wire)})
			}
		}
		return ref.Class
	}
	clause, class, explain := "", "", ""
	switch {
	case !present:
		clause, class = "absent-nondefault", "absent"
		explain = "option absent: the accessor must return the documented default (" + a.DefaultDoc + ")"
	case ref.Class == v4opt.OK:
		if got == v4opt.DefaultCanon(a.Kind) {
			clause = "wellformed-rejected"
		} else {
			clause = "value-mismatch"
		}
		class = "wellformed"
		explain = "the value is well-formed per " + a.RFC + "; the accessor must return its RFC interpretation"
	default:
		clause, class = "malformed-accepted", ref.Why
		explain = "the value is malformed per " + a.RFC + " (" + ref.Why + "); the accessor must return exactly the documented default (" + a.DefaultDoc + "), never a partial or misaligned value"
	}
	in := "option absent"
	if present {
		in = fmt.Sprintf("option %d = %s (%d bytes)", a.Code, fw.Hex(raw), len(raw))
	}
	if wire {
		in += " [read from a packet decoded by FromBytes]"
	}
	k.c.Report(fw.Violation{Fingerprint: a.Name + "|" + clause + "|" + class, Order: order, Scope: scope, Input: in,
		Observed: a.expr + " = " + got, Expected: ref.Canon, Explain: explain, GoTest: goTest(a, present, raw, wire)})
	return ref.Class
}

// both runs the direct and (optionally) the wire path for one raw value.
func (k *checker) both(a *acc, present bool, raw []byte, scope string, order int64, decoys, wire bool) v4opt.Class {
	p := build(a.Code, present, raw, decoys)
	cl := k.check(a, p, scope, order, false)
	if !wire {
		return cl
	}
	p2 := build(a.Code, present, raw, decoys)
	var q *dhcpv4.DHCPv4
	var err error
	if pv, st := fw.Safe(func() { q, err = dhcpv4.FromBytes(p2.ToBytes()) }); pv != nil {
		k.c.Report(fw.Violation{Fingerprint: "wire-trip|panic|" + fw.PanicSite(st), Order: order, Scope: scope,
			Input: fmt.Sprintf("option %d = %s", a.Code, fw.Hex(raw)), Observed: fmt.Sprintf("panic: %v at %s", pv, st), Expected: "no panic"})
		return cl
	}
	k.c.Eval(1)
	k.st.wire.Add(1)
	if err != nil {
		// a hand-built packet that does not survive the wire is C01's business
		k.st.wireChanged.Add(1)
		return cl
	}
	if w, ok := q.Options[a.Code]; ok != present || !bytes.Equal(w, raw) {
		k.st.wireChanged.Add(1) // C01's business; the accessor is still compared with what q holds
	}
	k.check(a, q, scope+"/wire", order, true)
	return cl
}

// ---- raw value families --------------------------------------------------------

var alpha = []byte{0x00, 0x01, 0x04, 0x20, 0x21, 0xff}

var classNames = []string{"zeros", "ff", "ramp(01,02,..)", "wellformed-units-truncated", "wellformed-units-zero-padded", "wellformed-exact-length"}

func units(k v4opt.Kind) [][]byte {
	r := []byte{0x0a, 0x00, 0x00, 0xfe}
	cat := func(bs ...[]byte) []byte { return bytes.Join(bs, nil) }
	switch k {
	case v4opt.KIP:
		return [][]byte{{0xc0, 0xa8, 0x01, 0x02}}
	case v4opt.KMask:
		return [][]byte{{0xff, 0xff, 0xfe, 0x00}}
	case v4opt.KU32:
		return [][]byte{{0x00, 0x01, 0x51, 0x80}}
	case v4opt.KIPs:
		return [][]byte{{10, 0, 0, 1}, {10, 0, 0, 2}, {192, 168, 255, 254}, {255, 255, 255, 255}, {0, 0, 0, 0}}
	case v4opt.KU16:
		return [][]byte{{0x05, 0xdc}}
	case v4opt.KU8, v4opt.KMsgType:
		return [][]byte{{0x05}}
	case v4opt.KArchs:
		return [][]byte{{0, 7}, {0, 9}, {0, 0}, {0xff, 0xff}, {1, 0}}
	case v4opt.KString, v4opt.KStringNUL:
		return [][]byte{[]byte("host"), []byte(".example"), []byte(".org")}
	case v4opt.KCodes:
		return [][]byte{{1}, {3}, {6}, {15}, {119}, {252}, {255}, {0}}
	case v4opt.KRoutes:
		return [][]byte{cat([]byte{0}, r), cat([]byte{8, 10}, r), cat([]byte{9, 10, 128}, r), cat([]byte{24, 192, 168, 1}, r),
			cat([]byte{32, 192, 168, 1, 5}, r), cat([]byte{17, 172, 16, 128}, r), cat([]byte{1, 128}, r)}
	case v4opt.KUserClass:
		return [][]byte{[]byte("\x04iPXE"), []byte("\x09linuxboot"), []byte("\x01x")}
	case v4opt.KVIVC:
		return [][]byte{[]byte("\x00\x00\x00\x09\x03abc"), {0, 0, 1, 0x37, 0}, {0xff, 0xff, 0xff, 0xff, 1, 0x7a}}
	case v4opt.KRelay:
		return [][]byte{[]byte("\x01\x04circ"), []byte("\x02\x03rid"), {5, 4, 10, 0, 0, 1}, {11, 0}, {151, 1, 0}, []byte("\x01\x02xy")}
	case v4opt.KNames:
		return [][]byte{v4opt.EncNames("example.com"), v4opt.EncNames("sub.example.org"), v4opt.EncNames("a")}
	}
	panic("units")
}

// exact returns a well-formed value of exactly L bytes where the type is
// variable-length and the cyclic units do not already give one; nil otherwise.
func exact(k v4opt.Kind, L int) []byte {
	fill := func(b []byte, n int, c byte) []byte {
		for i := 0; i < n; i++ {
			b = append(b, c+byte(i%23))
		}
		return b
	}
	switch k {
	case v4opt.KUserClass:
		if L >= 2 && L-1 <= 255 {
			return fill([]byte{byte(L - 1)}, L-1, 'A')
		}
	case v4opt.KVIVC:
		if L >= 5 && L-5 <= 255 {
			return fill([]byte{0, 0, 0x01, 0x37, byte(L - 5)}, L-5, 'a')
		}
	case v4opt.KRelay:
		if L >= 2 && L-2 <= 255 {
			return fill([]byte{1, byte(L - 2)}, L-2, 'a')
		}
	case v4opt.KNames:
		// one name of exactly L octets: well-formed up to 255 (RFC 1035 §3.1), malformed - absent result - beyond
		if L < 1 || L > 600 {
			return nil
		}
		var b []byte
		rem := L - 1
		for rem > 0 {
			ch := rem
			if ch > 64 {
				ch = 64
			}
			if rem-ch == 1 {
				ch--
			}
			if ch < 2 {
				return nil
			}
			b = fill(append(b, byte(ch-1)), ch-1, 'a')
			rem -= ch
		}
		return append(b, 0)
	}
	return nil
}

// structured returns the value of class cl and length L (nil,false if the class has none).
func structured(k v4opt.Kind, L, cl int) ([]byte, bool) {
	b := make([]byte, L)
	switch cl {
	case 0:
	case 1:
		for i := range b {
			b[i] = 0xff
		}
	case 2:
		for i := range b {
			b[i] = byte(i + 1)
		}
	case 3, 4:
		us := units(k)
		n := 0
		for i := 0; n < L; i++ {
			u := us[i%len(us)]
			if cl == 4 && n+len(u) > L {
				break // whole units only, rest stays zero
			}
			n += copy(b[n:], u)
		}
	case 5:
		e := exact(k, L)
		if e == nil {
			return nil, false
		}
		return e, true
	}
	return b, true
}

func inAlpha(raw []byte) bool {
	for _, x := range raw {
		if bytes.IndexByte(alpha, x) < 0 {
			return false
		}
	}
	return true
}

func pow(b, e int) int64 {
	n := int64(1)
	for i := 0; i < e; i++ {
		n *= int64(b)
	}
	return n
}

// ---- Run ---------------------------------------------------------------------------

func Run(c *fw.Ctx) {
	c.SetRule("get direction: (accessor, raw value) pairs are enumerated injectively (a value that a later family repeats is evaluated but not counted again); non-trivial = the raw value is non-empty and well-formed for the accessor's type per v4opt, so a typed value is actually compared (malformed, absent, zero-length and unspecified cases are counted separately in coverage); set direction: every (constructor, in-domain value) pair once")
	c.Assume("reference readings v4opt written from RFC 2132/3442/3004/3925/3046/4578/3397/8925/2563 (stdlib only)",
		"DESIGN.md §8a item 4: a zero-length value and an absent option are identified; nil and empty lists are identified",
		"relay-agent values with 0 or 255 in sub-option code position, and search lists that are not plain terminated names (pointers, reserved label types, unterminated tail, '.' inside a label), are UNSPECIFIED: only no-panic is demanded (labels are C19's subject)",
		"on the wire path the accessor is compared with the raw value the decoded packet holds (whether the wire trip preserves values is C01's subject)")
	// many small short-lived allocations and a tiny live heap: collect less often
	defer debug.SetGCPercent(debug.SetGCPercent(800))
	as := accessors()
	st := &stats{perAcc: make([]atomic.Int64, len(as)), unspec: make([][]atomic.Int64, len(as))}
	for i := range st.unspec {
		st.unspec[i] = make([]atomic.Int64, len(unspecWhys))
	}
	k := &checker{c: c, st: st}

	maxLen, maxAlpha := 300, 5
	all3 := false
	if c.Thorough() {
		maxLen, maxAlpha, all3 = 520, 7, true
	}
	// every length 0..maxLen, and the far end: around the 255-octet instance boundaries and well beyond them
	var lens []int
	for l := 0; l <= maxLen; l++ {
		lens = append(lens, l)
	}
	for _, l := range []int{764, 765, 766, 1019, 1020, 1021, 1024, 2047, 2048, 4095, 4096} {
		if l > maxLen {
			lens = append(lens, l)
		}
	}
	// one written-out well-formed case for each of these accessors (at most 12 samples are kept)
	sampled := map[string]bool{"Router": true, "IPAddressLeaseTime": true, "HostName": true, "ClasslessStaticRoute": true, "UserClass": true,
		"VIVC": true, "ClientArch": true, "DomainSearch": true, "RelayAgentInfo": true}
	nAbsent := int64(1)
	nSmall := int64(1 + 256 + 65536)
	nStruct := int64(len(lens)) * int64(len(classNames))
	var nAlpha int64
	for l := 3; l <= maxAlpha; l++ {
		nAlpha += pow(len(alpha), l)
	}
	nAll3 := int64(0)
	if all3 {
		nAll3 = 1 << 24
	}
	per := nAbsent + nSmall + nStruct + nAlpha + nAll3

	// packets without an option map, and with a nil value stored under the code
	for _, a := range as {
		k.check(a, basePacket(nil), "absent:nil-option-map", 0, false)
		k.check(a, basePacket(dhcpv4.Options{a.Code: nil}), "zero-length:nil-value", 1, false)
		c.Eval(2)
	}
	c.Scope("get:nil-map-and-nil-value", "cases_per_accessor", 2)

	c.Range(per*int64(len(as)), func(i int64) {
		a := as[i/per]
		j := i % per
		order := j
		switch {
		case j < nAbsent:
			k.both(a, false, nil, "absent", order, true, true)
			return
		case j < nAbsent+nSmall:
			j -= nAbsent
			var raw []byte
			switch {
			case j == 0:
				raw = []byte{}
			case j <= 256:
				raw = []byte{byte(j - 1)}
			default:
				j -= 257
				raw = []byte{byte(j >> 8), byte(j)}
			}
			if k.both(a, true, raw, "all-strings-len<=2", order, true, true) == v4opt.OK && len(raw) > 0 {
				c.Nontrivial(1)
				st.perAcc[a.idx].Add(1)
			}
			return
		case j < nAbsent+nSmall+nStruct:
			j -= nAbsent + nSmall
			L, cl := lens[int(j)/len(classNames)], int(j)%len(classNames)
			raw, ok := structured(a.Kind, L, cl)
			if !ok {
				return
			}
			dup := L <= 2 || (L <= maxAlpha && inAlpha(raw)) || (all3 && L == 3)
			for d := 0; d < cl && !dup; d++ {
				if o, ok := structured(a.Kind, L, d); ok && bytes.Equal(o, raw) {
					dup = true
				}
			}
			if k.both(a, true, raw, "lengths-0.."+fmt.Sprint(maxLen)+":"+classNames[cl], order, true, true) == v4opt.OK && !dup && len(raw) > 0 {
				c.Nontrivial(1)
				st.perAcc[a.idx].Add(1)
				if us := units(a.Kind); cl == 3 && sampled[a.Name] && L == len(us[0])+len(us[1%len(us)]) {
					c.Sample(map[string]any{"accessor": a.Name, "raw": fw.Hex(raw), "class": classNames[cl], "expected": v4opt.Interpret(a.Kind, true, raw).Canon})
				}
			}
			return
		case j < nAbsent+nSmall+nStruct+nAlpha:
			j -= nAbsent + nSmall + nStruct
			l := 3
			for j >= pow(len(alpha), l) {
				j -= pow(len(alpha), l)
				l++
			}
			raw := make([]byte, l)
			for x := 0; x < l; x++ {
				raw[x] = alpha[j%int64(len(alpha))]
				j /= int64(len(alpha))
			}
			dup := all3 && l == 3
			if k.both(a, true, raw, "alphabet-strings", order, true, true) == v4opt.OK && !dup {
				c.Nontrivial(1)
				st.perAcc[a.idx].Add(1)
			}
			return
		default:
			j -= nAbsent + nSmall + nStruct + nAlpha
			raw := []byte{byte(j >> 16), byte(j >> 8), byte(j)}
			if k.both(a, true, raw, "all-strings-len3", order, false, false) == v4opt.OK {
				c.Nontrivial(1)
				st.perAcc[a.idx].Add(1)
			}
		}
	})
	names := make([]string, len(as))
	for i, a := range as {
		names[i] = fmt.Sprintf("%s(%d,%s)", a.Name, a.Code, a.Kind)
	}
	c.Scope("get:absent", "accessors", names, "cases_per_accessor", 1, "paths", "direct + wire")
	c.Scope("get:all-strings-len<=2", "alphabet", "all 256 byte values", "max_len", 2, "cases_per_accessor", nSmall, "paths", "direct p.Options[code] + ToBytes/FromBytes", "decoys", "every other typed code carries de<code>c001")
	c.Scope("get:lengths", "lengths", fmt.Sprintf("0..%d and 764..766, 1019..1021, 1024, 2047, 2048, 4095, 4096", maxLen), "contents", classNames, "cases_per_accessor", nStruct, "paths", "direct + wire")
	c.Scope("get:alphabet-strings", "alphabet", fw.Hex(alpha), "len", fmt.Sprintf("3..%d", maxAlpha), "cases_per_accessor", nAlpha, "paths", "direct + wire")
	if all3 {
		c.Scope("get:all-strings-len3", "alphabet", "all 256 byte values", "len", 3, "cases_per_accessor", nAll3, "paths", "direct only, no decoys")
	}

	runSet(c, k, as)

	perAcc := map[string]int64{}
	for i, a := range as {
		perAcc[a.Name] = st.perAcc[i].Load()
		for w := range unspecWhys {
			if n := st.unspec[i][w].Load(); n > 0 {
				c.Unspecified(a.Name+":"+unspecWhys[w], n)
			}
		}
	}
	c.Extra("get_evaluations_by_reference_verdict", map[string]int64{"wellformed": st.wellformed.Load(), "malformed": st.malformed.Load(),
		"absent": st.absent.Load(), "zero_length": st.zeroLen.Load(), "unspecified": st.unspecified.Load()})
	c.Extra("get_wire_path_evaluations", st.wire.Load())
	c.Extra("wire_trip_changed_raw_value(C01 subject, not judged here)", st.wireChanged.Load())
	c.Extra("get_nontrivial_per_accessor", perAcc)
}

// ---- set / get -----------------------------------------------------------------------

type setCase struct {
	ctor  string // constructor or modifier
	arg   string // Go-ish rendering of the argument
	apply func(p *dhcpv4.DHCPv4)
	acc   string // accessor to read back through ("" = raw only)
	code  uint8
	// wantRaw is the RFC layout of the value (nil = layout not unique; rawOK decides)
	wantRaw []byte
	rawOK   func(raw []byte) string
	want    string // canonical form of the value that was set
	class   string
	// ambiguous: the read-back is governed by the RFC reading of the bytes rather than by the set value
	ambiguous bool
}

func ip4(a [4]byte, long bool) net.IP {
	if long {
		return net.IPv4(a[0], a[1], a[2], a[3])
	}
	return net.IP{a[0], a[1], a[2], a[3]}
}

func runSet(c *fw.Ctx, k *checker, as []*acc) {
	var cases []setCase
	add := func(s setCase) { cases = append(cases, s) }
	upd := func(o func() dhcpv4.Option) func(p *dhcpv4.DHCPv4) {
		return func(p *dhcpv4.DHCPv4) { p.UpdateOption(o()) }
	}
	mod := func(m func() dhcpv4.Modifier) func(p *dhcpv4.DHCPv4) {
		return func(p *dhcpv4.DHCPv4) { m()(p) }
	}

	// addresses
	addrs := [][4]byte{{0, 0, 0, 0}, {0, 0, 0, 1}, {10, 1, 2, 3}, {127, 0, 0, 1}, {128, 0, 0, 0}, {192, 168, 255, 254}, {255, 255, 255, 255}, {1, 2, 3, 4}, {224, 0, 0, 1}, {0, 255, 0, 255}}
	for _, ct := range []struct {
		n    string
		f    func(net.IP) dhcpv4.Option
		acc  string
		code uint8
	}{{"OptBroadcastAddress", dhcpv4.OptBroadcastAddress, "BroadcastAddress", 28}, {"OptRequestedIPAddress", dhcpv4.OptRequestedIPAddress, "RequestedIPAddress", 50}, {"OptServerIdentifier", dhcpv4.OptServerIdentifier, "ServerIdentifier", 54}} {
		for _, a := range addrs {
			for _, long := range []bool{false, true} {
				a, long, ct := a, long, ct
				add(setCase{ctor: ct.n, arg: fmt.Sprintf("%v (len %d)", ip4(a, long), len(ip4(a, long))), apply: upd(func() dhcpv4.Option { return ct.f(ip4(a, long)) }),
					acc: ct.acc, code: ct.code, wantRaw: v4opt.EncIPs(a), want: v4opt.CanonIP(a), class: "address"})
			}
		}
	}
	// address lists: all lists of 1..3 over 5 addresses, both slice forms, plus lists crossing the 255-byte option split
	la := addrs[:5]
	var lists [][][4]byte
	for n := 1; n <= 3; n++ {
		for x := int64(0); x < pow(len(la), n); x++ {
			var l [][4]byte
			y := x
			for i := 0; i < n; i++ {
				l = append(l, la[y%int64(len(la))])
				y /= int64(len(la))
			}
			lists = append(lists, l)
		}
	}
	for _, n := range []int{63, 64, 65} {
		var l [][4]byte
		for i := 0; i < n; i++ {
			l = append(l, [4]byte{10, byte(n), byte(i), byte(255 - i)})
		}
		lists = append(lists, l)
	}
	type ipsCtor struct {
		n    string
		f    func(...net.IP) dhcpv4.Option
		m    func(...net.IP) dhcpv4.Modifier
		acc  string
		code uint8
	}
	for _, ct := range []ipsCtor{{"OptRouter", dhcpv4.OptRouter, nil, "Router", 3}, {"OptDNS", dhcpv4.OptDNS, nil, "DNS", 6},
		{"OptNTPServers", dhcpv4.OptNTPServers, nil, "NTPServers", 42}, {"OptNetBIOSNameServers", dhcpv4.OptNetBIOSNameServers, nil, "NetBIOSNameServers", 44},
		{"WithRouter", nil, dhcpv4.WithRouter, "Router", 3}, {"WithDNS", nil, dhcpv4.WithDNS, "DNS", 6}} {
		for _, l := range lists {
			for _, long := range []bool{false, true} {
				if ct.m != nil && (long || len(l) > 2) {
					continue
				}
				l, long, ct := l, long, ct
				mk := func() []net.IP {
					var o []net.IP
					for _, a := range l {
						o = append(o, ip4(a, long))
					}
					return o
				}
				s := setCase{ctor: ct.n, arg: fmt.Sprintf("%d addresses %v… (len %d each)", len(l), ip4(l[0], long), len(ip4(l[0], long))), acc: ct.acc, code: ct.code,
					wantRaw: v4opt.EncIPs(l...), want: v4opt.CanonIPs(l), class: "address-list"}
				if ct.f != nil {
					s.apply = upd(func() dhcpv4.Option { return ct.f(mk()...) })
				} else {
					s.apply = mod(func() dhcpv4.Modifier { return ct.m(mk()...) })
				}
				add(s)
			}
		}
	}
	// masks /0../32 and two non-contiguous ones
	var masks [][4]byte
	for w := 0; w <= 32; w++ {
		masks = append(masks, v4opt.MaskOf(uint8(w)))
	}
	masks = append(masks, [4]byte{0xff, 0x00, 0xff, 0x00}, [4]byte{0x00, 0x00, 0x00, 0x01})
	for i, m := range masks {
		m := m
		add(setCase{ctor: "OptSubnetMask", arg: hex.EncodeToString(m[:]), apply: upd(func() dhcpv4.Option { return dhcpv4.OptSubnetMask(net.IPMask{m[0], m[1], m[2], m[3]}) }),
			acc: "SubnetMask", code: 1, wantRaw: m[:], want: v4opt.CanonMask(m), class: "mask"})
		if i <= 32 {
			w := i
			add(setCase{ctor: "WithNetmask", arg: fmt.Sprintf("net.CIDRMask(%d,32)", w), apply: mod(func() dhcpv4.Modifier { return dhcpv4.WithNetmask(net.CIDRMask(w, 32)) }),
				acc: "SubnetMask", code: 1, wantRaw: m[:], want: v4opt.CanonMask(m), class: "mask"})
		}
	}
	// durations
	secs := []uint32{0, 1, 2, 255, 256, 65535, 65536, 1<<24 - 1, 1 << 24, 1<<31 - 1, 1 << 31, 1<<32 - 2, 1<<32 - 1, 86400, 0x01020304}
	for _, ct := range []struct {
		n    string
		f    func(time.Duration) dhcpv4.Option
		acc  string
		code uint8
	}{{"OptIPAddressLeaseTime", dhcpv4.OptIPAddressLeaseTime, "IPAddressLeaseTime", 51}, {"OptRenewTimeValue", dhcpv4.OptRenewTimeValue, "IPAddressRenewalTime", 58},
		{"OptRebindingTimeValue", dhcpv4.OptRebindingTimeValue, "IPAddressRebindingTime", 59}, {"OptIPv6OnlyPreferred", dhcpv4.OptIPv6OnlyPreferred, "IPv6OnlyPreferred", 108}} {
		for _, s := range secs {
			s, ct := s, ct
			add(setCase{ctor: ct.n, arg: fmt.Sprintf("%d*time.Second", s), apply: upd(func() dhcpv4.Option { return ct.f(time.Duration(s) * time.Second) }),
				acc: ct.acc, code: ct.code, wantRaw: v4opt.EncU32(s), want: v4opt.CanonU32(s), class: "duration"})
		}
	}
	for _, s := range secs {
		s := s
		add(setCase{ctor: "WithLeaseTime", arg: fmt.Sprint(s), apply: mod(func() dhcpv4.Modifier { return dhcpv4.WithLeaseTime(s) }),
			acc: "IPAddressLeaseTime", code: 51, wantRaw: v4opt.EncU32(s), want: v4opt.CanonU32(s), class: "duration"})
		add(setCase{ctor: "WithIPv6OnlyPreferred", arg: fmt.Sprint(s), apply: mod(func() dhcpv4.Modifier { return dhcpv4.WithIPv6OnlyPreferred(s) }),
			acc: "IPv6OnlyPreferred", code: 108, wantRaw: v4opt.EncU32(s), want: v4opt.CanonU32(s), class: "duration"})
	}
	// 16-bit and 8-bit values: all of them
	for v := 0; v < 65536; v++ {
		v := uint16(v)
		add(setCase{ctor: "OptMaxMessageSize", arg: fmt.Sprint(v), apply: upd(func() dhcpv4.Option { return dhcpv4.OptMaxMessageSize(v) }),
			acc: "MaxMessageSize", code: 57, wantRaw: v4opt.EncU16(v), want: v4opt.CanonU16(v), class: "u16"})
	}
	for v := 0; v < 256; v++ {
		v := uint8(v)
		add(setCase{ctor: "OptAutoConfigure", arg: fmt.Sprint(v), apply: upd(func() dhcpv4.Option { return dhcpv4.OptAutoConfigure(dhcpv4.AutoConfiguration(v)) }),
			acc: "AutoConfigure", code: 116, wantRaw: []byte{v}, want: v4opt.CanonU8(v), class: "u8"})
		add(setCase{ctor: "OptMessageType", arg: fmt.Sprint(v), apply: upd(func() dhcpv4.Option { return dhcpv4.OptMessageType(dhcpv4.MessageType(v)) }),
			acc: "MessageType", code: 53, wantRaw: []byte{v}, want: v4opt.CanonU8(v), class: "u8"})
		add(setCase{ctor: "WithMessageType", arg: fmt.Sprint(v), apply: mod(func() dhcpv4.Modifier { return dhcpv4.WithMessageType(dhcpv4.MessageType(v)) }),
			acc: "MessageType", code: 53, wantRaw: []byte{v}, want: v4opt.CanonU8(v), class: "u8"})
	}
	// strings: every length 0..255 (and 256, 300: split over two options on the wire), three contents
	mkstr := func(n, kind int) string {
		b := make([]byte, n)
		for i := range b {
			switch kind {
			case 0:
				b[i] = 'a' + byte(i%26)
			case 1:
				b[i] = byte(i + 1) // all byte values; NUL in the interior at i=255
				if i == n-1 && b[i] == 0 {
					b[i] = 'z'
				}
			case 2: // interior NULs, last byte not NUL
				if i%3 == 1 && i != n-1 {
					b[i] = 0
				} else {
					b[i] = 'n'
				}
			}
		}
		return string(b)
	}
	strLens := []int{}
	for n := 0; n <= 256; n++ {
		strLens = append(strLens, n)
	}
	strLens = append(strLens, 300)
	for _, ct := range []struct {
		n    string
		f    func(string) dhcpv4.Option
		acc  string
		code uint8
		trim bool
	}{{"OptDomainName", dhcpv4.OptDomainName, "DomainName", 15, false}, {"OptRootPath", dhcpv4.OptRootPath, "RootPath", 17, false},
		{"OptClassIdentifier", dhcpv4.OptClassIdentifier, "ClassIdentifier", 60, false}, {"OptMessage", dhcpv4.OptMessage, "Message", 56, false},
		{"OptHostName", dhcpv4.OptHostName, "HostName", 12, true}, {"OptBootFileName", dhcpv4.OptBootFileName, "BootFileNameOption", 67, true},
		{"OptTFTPServerName", dhcpv4.OptTFTPServerName, "TFTPServerName", 66, true}} {
		for _, n := range strLens {
			for kind := 0; kind < 3; kind++ {
				if n == 0 && kind > 0 {
					continue
				}
				s, ct := mkstr(n, kind), ct
				add(setCase{ctor: ct.n, arg: fmt.Sprintf("%d-byte string %.12q…", n, s), apply: upd(func() dhcpv4.Option { return ct.f(strings.Clone(s)) }),
					acc: ct.acc, code: ct.code, wantRaw: []byte(s), want: v4opt.CanonStr(s), class: "string"})
			}
		}
		if !ct.trim { // where no trimming is documented a trailing NUL is part of the value
			ct := ct
			add(setCase{ctor: ct.n, arg: `"name\x00"`, apply: upd(func() dhcpv4.Option { return ct.f("name\x00") }),
				acc: ct.acc, code: ct.code, wantRaw: []byte("name\x00"), want: v4opt.CanonStr("name\x00"), class: "string-trailing-nul"})
		}
	}
	// parameter request list
	gc := func(bs []byte) []dhcpv4.OptionCode {
		var o []dhcpv4.OptionCode
		for _, b := range bs {
			o = append(o, dhcpv4.GenericOptionCode(b))
		}
		return o
	}
	var codeLists [][]byte
	ca := []byte{0, 1, 53, 82, 255}
	for n := 1; n <= 3; n++ {
		for x := int64(0); x < pow(len(ca), n); x++ {
			var l []byte
			y := x
			for i := 0; i < n; i++ {
				l = append(l, ca[y%int64(len(ca))])
				y /= int64(len(ca))
			}
			codeLists = append(codeLists, l)
		}
	}
	allc := make([]byte, 256)
	desc := make([]byte, 256)
	for i := range allc {
		allc[i], desc[i] = byte(i), byte(255-i)
	}
	codeLists = append(codeLists, allc, desc, []byte{3, 1, 15}, []byte{121, 3, 6, 15, 119, 252})
	for _, l := range codeLists {
		l := l
		add(setCase{ctor: "OptParameterRequestList", arg: fmt.Sprintf("codes %s", fw.HexShort(l)), apply: upd(func() dhcpv4.Option { return dhcpv4.OptParameterRequestList(gc(l)...) }),
			acc: "ParameterRequestList", code: 55, wantRaw: l, want: v4opt.CanonCodes(l), class: "code-list"})
	}
	for _, l := range [][]byte{{3, 1, 15}, {1}, {255, 0}} {
		l := l
		add(setCase{ctor: "WithRequestedOptions", arg: fmt.Sprintf("codes %s on a packet without the option", fw.Hex(l)), apply: mod(func() dhcpv4.Modifier { return dhcpv4.WithRequestedOptions(gc(l)...) }),
			acc: "ParameterRequestList", code: 55, wantRaw: l, want: v4opt.CanonCodes(l), class: "code-list"})
	}
	// classless static routes: all lists of 1..3 over 13 widths, plus a list crossing 255 bytes
	var ralpha []v4opt.Route
	for _, w := range []uint8{0, 1, 7, 8, 9, 15, 16, 17, 23, 24, 25, 31, 32} {
		m := v4opt.MaskOf(w)
		d := [4]byte{0xaa & m[0], 0xbb & m[1], 0xcc & m[2], 0xdd & m[3]}
		ralpha = append(ralpha, v4opt.Route{Width: w, Dest: d, Router: [4]byte{10, w, 0, 254}})
	}
	var rlists [][]v4opt.Route
	for n := 1; n <= 3; n++ {
		for x := int64(0); x < pow(len(ralpha), n); x++ {
			var l []v4opt.Route
			y := x
			for i := 0; i < n; i++ {
				l = append(l, ralpha[y%int64(len(ralpha))])
				y /= int64(len(ralpha))
			}
			rlists = append(rlists, l)
		}
	}
	var long []v4opt.Route
	for i := 0; i < 40; i++ {
		long = append(long, v4opt.Route{Width: 32, Dest: [4]byte{192, 168, byte(i), 1}, Router: [4]byte{10, 0, byte(i), 254}})
	}
	rlists = append(rlists, long)
	for li, l := range rlists {
		for _, form16 := range []bool{false, true} {
			if form16 && li%3 != 0 && len(l) > 1 {
				continue // the 16-byte address form (net.ParseIP / net.IPv4 give it) on every single route and a third of the lists
			}
			l, form16 := l, form16
			ipOf := func(a [4]byte) net.IP {
				if form16 {
					return net.IPv4(a[0], a[1], a[2], a[3])
				}
				return net.IP{a[0], a[1], a[2], a[3]}
			}
			mk := func() []*dhcpv4.Route {
				var o []*dhcpv4.Route
				for _, r := range l {
					m := v4opt.MaskOf(r.Width)
					o = append(o, &dhcpv4.Route{Dest: &net.IPNet{IP: ipOf(r.Dest), Mask: net.IPMask{m[0], m[1], m[2], m[3]}}, Router: ipOf(r.Router)})
				}
				return o
			}
			ws := []string{}
			for _, r := range l {
				if len(ws) < 4 {
					ws = append(ws, fmt.Sprintf("%d.%d.%d.%d/%d via %d.%d.%d.%d", r.Dest[0], r.Dest[1], r.Dest[2], r.Dest[3], r.Width, r.Router[0], r.Router[1], r.Router[2], r.Router[3]))
				}
			}
			form := ""
			if form16 {
				form = " (addresses in 16-byte form)"
			}
			add(setCase{ctor: "OptClasslessStaticRoute", arg: fmt.Sprintf("%d routes%s: %s", len(l), form, strings.Join(ws, ", ")), apply: upd(func() dhcpv4.Option { return dhcpv4.OptClasslessStaticRoute(mk()...) }),
				acc: "ClasslessStaticRoute", code: 121, wantRaw: v4opt.EncRoutes(l...), want: v4opt.CanonRoutes(l), class: "route-list"})
		}
	}
	// user class, single string (the non-RFC form the accessor documents as fallback)
	ucNames := []string{"iPXE", "linuxboot", "PXEClient", "\x04iPXE", "\x01a\x01b"}
	for n := 0; n <= 255; n++ {
		ucNames = append(ucNames, strings.Repeat("\xfe", n))
	}
	for _, s := range ucNames {
		s := s
		ref := v4opt.Interpret(v4opt.KUserClass, true, []byte(s))
		amb := ref.Class == v4opt.OK
		for _, ct := range []string{"OptUserClass", "WithUserClass(rfc=false)"} {
			ct := ct
			ap := upd(func() dhcpv4.Option { return dhcpv4.OptUserClass(strings.Clone(s)) })
			if ct != "OptUserClass" {
				if len(s) > 12 {
					continue
				}
				ap = mod(func() dhcpv4.Modifier { return dhcpv4.WithUserClass(strings.Clone(s), false) })
			}
			add(setCase{ctor: ct, arg: fmt.Sprintf("%d-byte string %.12q", len(s), s), apply: ap, acc: "UserClass", code: 77,
				wantRaw: []byte(s), want: ref.Canon, class: "user-class-string", ambiguous: amb})
		}
	}
	// RFC 3004 user class lists: all lists of 1..3 over items of length 1,2,254,255 + realistic
	items := []string{"x", "yz", strings.Repeat("p", 254), strings.Repeat("q", 255), "iPXE", "linuxboot"}
	var slists [][]string
	for n := 1; n <= 3; n++ {
		for x := int64(0); x < pow(len(items), n); x++ {
			var l []string
			y := x
			for i := 0; i < n; i++ {
				l = append(l, items[y%int64(len(items))])
				y /= int64(len(items))
			}
			slists = append(slists, l)
		}
	}
	for _, l := range slists {
		l := l
		add(setCase{ctor: "OptRFC3004UserClass", arg: fmt.Sprintf("%d items, lengths %v", len(l), lens(l)), apply: upd(func() dhcpv4.Option { return dhcpv4.OptRFC3004UserClass(append([]string(nil), l...)) }),
			acc: "UserClass", code: 77, wantRaw: v4opt.EncUserClass(l...), want: v4opt.CanonStrs("strs", l), class: "user-class-list"})
		if len(l) == 1 {
			add(setCase{ctor: "WithUserClass(rfc=true)", arg: fmt.Sprintf("%d-byte string", len(l[0])), apply: mod(func() dhcpv4.Modifier { return dhcpv4.WithUserClass(l[0], true) }),
				acc: "UserClass", code: 77, wantRaw: v4opt.EncUserClass(l...), want: v4opt.CanonStrs("strs", l), class: "user-class-list"})
		}
	}
	// VIVC: all lists of 1..3 over enterprise numbers x data lengths
	var vitems []v4opt.VIVCItem
	for _, e := range []uint32{0, 9, 0xffffffff} {
		for _, n := range []int{0, 1, 255} {
			vitems = append(vitems, v4opt.VIVCItem{Ent: e, Data: bytes.Repeat([]byte{byte(0x30 + n%10 + int(e%7))}, n)})
		}
	}
	var vlists [][]v4opt.VIVCItem
	for n := 1; n <= 3; n++ {
		for x := int64(0); x < pow(len(vitems), n); x++ {
			var l []v4opt.VIVCItem
			y := x
			for i := 0; i < n; i++ {
				l = append(l, vitems[y%int64(len(vitems))])
				y /= int64(len(vitems))
			}
			vlists = append(vlists, l)
		}
	}
	for _, l := range vlists {
		l := l
		mk := func() []dhcpv4.VIVCIdentifier {
			var o []dhcpv4.VIVCIdentifier
			for _, it := range l {
				o = append(o, dhcpv4.VIVCIdentifier{EntID: iana.EnterpriseID(it.Ent), Data: append([]byte{}, it.Data...)})
			}
			return o
		}
		add(setCase{ctor: "OptVIVC", arg: fmt.Sprintf("%d identifiers, first ent=%d len=%d", len(l), l[0].Ent, len(l[0].Data)), apply: upd(func() dhcpv4.Option { return dhcpv4.OptVIVC(mk()...) }),
			acc: "VIVC", code: 124, wantRaw: v4opt.EncVIVC(l...), want: v4opt.CanonVIVC(l), class: "vivc-list"})
	}
	// client architectures: every single value, and all lists of 2..3 over 7 values
	var alists [][]uint16
	for v := 0; v < 65536; v++ {
		alists = append(alists, []uint16{uint16(v)})
	}
	av := []uint16{0, 1, 7, 9, 0xff, 0x100, 0xffff}
	for n := 2; n <= 3; n++ {
		for x := int64(0); x < pow(len(av), n); x++ {
			var l []uint16
			y := x
			for i := 0; i < n; i++ {
				l = append(l, av[y%int64(len(av))])
				y /= int64(len(av))
			}
			alists = append(alists, l)
		}
	}
	for _, l := range alists {
		l := l
		mk := func() []iana.Arch {
			o := make([]iana.Arch, len(l))
			for i, v := range l {
				o[i] = iana.Arch(v)
			}
			return o
		}
		add(setCase{ctor: "OptClientArch", arg: fmt.Sprint(l), apply: upd(func() dhcpv4.Option { return dhcpv4.OptClientArch(mk()...) }),
			acc: "ClientArch", code: 93, wantRaw: v4opt.EncU16s(l...), want: v4opt.CanonU16s(l), class: "arch-list"})
	}
	// domain search: plain names only (labels are C19's subject). The layout may be compressed, so the
	// raw bytes are judged by the reference reading instead of byte equality.
	dn := []string{"a", "example.com", "sub.example.org", strings.Repeat("l", 63) + ".example", "x.y.z.example.net"}
	var nlists [][]string
	for n := 1; n <= 3; n++ {
		for x := int64(0); x < pow(len(dn), n); x++ {
			var l []string
			y := x
			for i := 0; i < n; i++ {
				l = append(l, dn[y%int64(len(dn))])
				y /= int64(len(dn))
			}
			nlists = append(nlists, l)
		}
	}
	for _, l := range nlists {
		l := l
		want := v4opt.CanonStrs("names", l)
		rawOK := func(raw []byte) string {
			r := v4opt.Interpret(v4opt.KNames, true, raw)
			if r.Class == v4opt.Unspecified {
				return "" // compressed layout: left to C19
			}
			if r.Canon != want {
				return "reference reading of the stored bytes: " + r.Canon
			}
			return ""
		}
		add(setCase{ctor: "OptDomainSearch", arg: fmt.Sprintf("%q", l), apply: upd(func() dhcpv4.Option {
			return dhcpv4.OptDomainSearch(&rfc1035label.Labels{Labels: append([]string(nil), l...)})
		}), acc: "DomainSearch", code: 119, rawOK: rawOK, want: want, class: "name-list"})
		if len(l) <= 2 {
			add(setCase{ctor: "WithDomainSearchList", arg: fmt.Sprintf("%q", l), apply: mod(func() dhcpv4.Modifier { return dhcpv4.WithDomainSearchList(append([]string(nil), l...)...) }),
				acc: "DomainSearch", code: 119, rawOK: rawOK, want: want, class: "name-list"})
		}
	}
	// get, edit in place, set, get: the list read from a packet that came off the wire is edited element-wise and
	// set again through the typed constructor (a label set parsed from bytes carries those bytes with it)
	for _, l := range nlists {
		if len(l) > 2 {
			continue
		}
		for k := range l {
			for ei, edit := range []func(string) string{
				func(n string) string { return "q" + n[1:] },                    // another name of the same length
				func(n string) string { return strings.ToUpper(n[:1]) + n[1:] }, // the same letters in another case
				func(n string) string { return "longer-" + n },                  // another length
			} {
				l, k, edit, ei := l, k, edit, ei
				edited := append([]string(nil), l...)
				edited[k] = edit(l[k])
				if edited[k] == l[k] || len(edited[k]) > 70 {
					continue
				}
				want := v4opt.CanonStrs("names", edited)
				add(setCase{ctor: "DomainSearch() edited in place, then OptDomainSearch", arg: fmt.Sprintf("%q element %d -> %q (edit %d)", l, k, edited[k], ei),
					apply: func(p *dhcpv4.DHCPv4) {
						p.UpdateOption(dhcpv4.OptDomainSearch(&rfc1035label.Labels{Labels: append([]string(nil), l...)}))
						q, err := dhcpv4.FromBytes(p.ToBytes())
						if err != nil {
							return
						}
						got := q.DomainSearch()
						if got == nil || len(got.Labels) != len(l) {
							return
						}
						got.Labels[k] = edited[k]
						p.UpdateOption(dhcpv4.OptDomainSearch(got))
					},
					acc: "DomainSearch", code: 119, want: want, class: "name-list-edited-after-decoding",
					rawOK: func(raw []byte) string {
						r := v4opt.Interpret(v4opt.KNames, true, raw)
						if r.Class != v4opt.Unspecified && r.Canon != want {
							return "reference reading of the stored bytes: " + r.Canon
						}
						return ""
					}})
			}
		}
	}
	// relay agent information: ordered selections of 1..3 distinct sub-option codes x value lengths.
	// RFC 3046 fixes no order, so the stored bytes are judged by the reference reading.
	subCodes := []uint8{1, 2, 5, 11, 82, 151, 254}
	subLens := []int{0, 1, 4, 255, 256, 300}
	type sub struct {
		code uint8
		n    int
	}
	var sublists [][]sub
	var rec func(cur []sub)
	rec = func(cur []sub) {
		if len(cur) > 0 {
			sublists = append(sublists, append([]sub(nil), cur...))
		}
		if len(cur) == 3 {
			return
		}
		for _, sc := range subCodes {
			dupc := false
			for _, x := range cur {
				dupc = dupc || x.code == sc
			}
			if dupc {
				continue
			}
			for li, n := range subLens {
				// keep the product small: with 3 sub-options use only lengths 0,4,255
				if len(cur) == 2 && (li == 1 || li >= 4) {
					continue
				}
				rec(append(cur, sub{sc, n}))
			}
		}
	}
	rec(nil)
	for _, l := range sublists {
		l := l
		m := map[uint8][]byte{}
		desc := []string{}
		for _, s := range l {
			m[s.code] = bytes.Repeat([]byte{s.code ^ 0x5a}, s.n)
			desc = append(desc, fmt.Sprintf("%d:%dB", s.code, s.n))
		}
		want := v4opt.CanonRelay(m)
		rawOK := func(raw []byte) string {
			r := v4opt.Interpret(v4opt.KRelay, true, raw)
			if r.Class != v4opt.OK || r.Canon != want {
				return fmt.Sprintf("reference reading of the stored bytes: %s %s %s", r.Class, r.Why, r.Canon)
			}
			return ""
		}
		add(setCase{ctor: "OptRelayAgentInfo", arg: "sub-options " + strings.Join(desc, ","), apply: upd(func() dhcpv4.Option {
			var os []dhcpv4.Option
			for _, s := range l {
				os = append(os, dhcpv4.OptGeneric(dhcpv4.GenericOptionCode(s.code), bytes.Repeat([]byte{s.code ^ 0x5a}, s.n)))
			}
			return dhcpv4.OptRelayAgentInfo(os...)
		}), acc: "RelayAgentInfo", code: 82, rawOK: rawOK, want: want, class: "sub-option-list"})
	}
	// untyped constructors: raw read-back only
	for _, n := range []int{0, 1, 7, 255, 256} {
		n := n
		v := bytes.Repeat([]byte{0xc1}, n)
		add(setCase{ctor: "OptClientIdentifier", arg: fmt.Sprintf("%d bytes", n), apply: upd(func() dhcpv4.Option { return dhcpv4.OptClientIdentifier(append([]byte{}, v...)) }), code: 61, wantRaw: v, class: "bytes"})
		add(setCase{ctor: "OptGeneric", arg: fmt.Sprintf("code 224, %d bytes", n), apply: upd(func() dhcpv4.Option { return dhcpv4.OptGeneric(helper, append([]byte{}, v...)) }), acc: "GetString", code: v4opt.HelperCode, wantRaw: v, want: v4opt.CanonStr(string(v)), class: "bytes"})
		add(setCase{ctor: "WithGeneric", arg: fmt.Sprintf("code 224, %d bytes", n), apply: mod(func() dhcpv4.Modifier { return dhcpv4.WithGeneric(helper, append([]byte{}, v...)) }), acc: "GetString", code: v4opt.HelperCode, wantRaw: v, want: v4opt.CanonStr(string(v)), class: "bytes"})
	}

	// run them
	perCtor := map[string]int{}
	ambiguous := 0
	base := int64(1) << 40 // set/get orders sort after the get direction
	for i, s := range cases {
		perCtor[s.ctor]++
		c.Eval(1)
		order := base + int64(i)
		if s.ambiguous {
			ambiguous++
		} else {
			c.Nontrivial(1)
		}
		runSetCase(c, k, as, s, order)
		if i%60013 == 3 {
			c.Sample(map[string]any{"constructor": s.ctor, "argument": s.arg, "expected_raw": fw.HexShort(s.wantRaw), "expected_readback": trunc(s.want, 120)})
		}
	}
	c.Scope("set:constructors", "cases_per_constructor", perCtor, "domains",
		"addresses 10 x {4-byte,16-byte form}; address lists: all lists of 1..3 over 5 addresses + 63/64/65 addresses; masks /0../32 + 2 non-contiguous; durations 0,1,2,255,256,65535,65536,2^24-1,2^24,2^31-1,2^31,2^32-2,2^32-1,86400,0x01020304 s; all 65536 u16; all 256 u8 / message types; strings of every length 0..256 and 300 x 3 contents; code lists: all of 1..3 over {0,1,53,82,255}, all 256 ascending and descending; route lists: all of 1..3 over widths {0,1,7,8,9,15,16,17,23,24,25,31,32} + 40 routes; user class strings 0..255 bytes; RFC 3004 lists: all of 1..3 over item lengths {1,2,254,255,4,9}; VIVC lists: all of 1..3 over ent {0,9,2^32-1} x data len {0,1,255}; architectures: all 65536 single, all lists of 2..3 over 7 values; plain search lists: all of 1..3 over 5 names; relay sub-options: ordered selections of 1..3 distinct codes from {1,2,5,11,82,151,254} x value lengths {0,1,4,255,256,300}",
		"paths", "UpdateOption/modifier then accessor; then ToBytes/FromBytes then accessor", "cases", len(cases))
	c.Extra("set_cases_where_the_RFC_reading_governs(OptUserClass string that is itself RFC 3004 well-formed; not counted non-trivial)", ambiguous)
}

func lens(l []string) []int {
	o := make([]int, len(l))
	for i, s := range l {
		o[i] = len(s)
	}
	return o
}

func trunc(s string, n int) string {
	if len(s) <= n {
		return s
	}
	return s[:n] + "…"
}

func runSetCase(c *fw.Ctx, k *checker, as []*acc, s setCase, order int64) {
	p := basePacket(nil)
	if pv, st := fw.Safe(func() { s.apply(p) }); pv != nil {
		c.Report(fw.Violation{Fingerprint: s.ctor + "|panic|" + fw.PanicSite(st), Order: order, Scope: "set:" + s.ctor, Input: s.ctor + "(" + s.arg + ")",
			Observed: fmt.Sprintf("panic: %v at %s", pv, st), Expected: "option stored"})
		return
	}
	raw, present := p.Options[s.code]
	raw = append([]byte(nil), raw...)
	rep := func(clause, obs, exp, explain string) {
		c.Report(fw.Violation{Fingerprint: s.ctor + "|" + clause + "|" + s.class, Order: order, Scope: "set:" + s.ctor, Input: s.ctor + "(" + s.arg + ")",
			Observed: obs, Expected: exp, Explain: explain})
	}
	if !present {
		rep("raw-layout", "option not stored", "option "+fmt.Sprint(s.code)+" stored", "the constructor's option was not stored under its code")
		return
	}
	if s.rawOK != nil {
		if msg := s.rawOK(raw); msg != "" {
			rep("raw-layout", "stored bytes "+fw.HexShort(raw)+"; "+msg, s.want, "the stored bytes do not read back (reference reading) as the value that was set")
		}
	} else if !bytes.Equal(raw, s.wantRaw) {
		rep("raw-layout", "stored bytes "+fw.HexShort(raw), "RFC layout "+fw.HexShort(s.wantRaw), "the stored bytes are not the RFC layout of the value that was set")
	}
	if s.acc == "" {
		return
	}
	a := accByName(as, s.acc)
	read := func(q *dhcpv4.DHCPv4, path string) {
		var got string
		if pv, st := fw.Safe(func() { got = a.get(q) }); pv != nil {
			rep("panic", fmt.Sprintf("panic: %v at %s", pv, st), "a value", "read-back panics")
			return
		}
		if got == s.want {
			return
		}
		if len(raw) == 0 && got == v4opt.Interpret(a.Kind, false, nil).Canon {
			return // empty value set: zero-length and absent are identified
		}
		rep("readback", a.expr+" = "+trunc(got, 300)+" ("+path+")", trunc(s.want, 300), "reading back through the typed accessor must return the value that was set")
	}
	read(p, "directly after setting")
	var q *dhcpv4.DHCPv4
	var err error
	if pv, st := fw.Safe(func() { q, err = dhcpv4.FromBytes(p.ToBytes()) }); pv != nil {
		rep("panic", fmt.Sprintf("wire trip panic: %v at %s", pv, st), "no panic", "")
		return
	}
	c.Eval(1)
	if err != nil {
		k.st.wireChanged.Add(1)
		return
	}
	if w := q.Options[s.code]; !bytes.Equal(w, raw) {
		k.st.wireChanged.Add(1) // C01's subject
		return
	}
	read(q, "after ToBytes/FromBytes")
}
