// Package c19: domain-name label encoding round-trips and decoding follows
// RFC 1035 (§3.1, §4.1.4) and RFC 4704 §4.2.
//
// Bounded-exhaustive enumeration against the independent reference model
// labelref:
//
//	(a) encode→decode of all small name lists (plus deterministic extremes);
//	(b) decoding of ALL byte strings over a 10-symbol alphabet up to a length
//	    bound, plus structurally built label-length and pointer-offset boundaries;
//	(c) for every string the library accepts: the unmodified set re-encodes to
//	    the original bytes, and after every single edit of the name list it
//	    encodes the new list (or still the original bytes if the edit left the
//	    list equal);
//	(d) the same decode oracle through the DHCP entry points that embed a name
//	    list (DHCPv6 options 24, 39, 56/3; DHCPv4 option 119).
//
// The classification MUST-ACCEPT / MAY-REJECT / REJECT / UNSPECIFIED is
// documented in package labelref.
package c19

import (
	"bytes"
	"fmt"
	"runtime/debug"
	"strings"
	"sync/atomic"
	"time"

	"github.com/insomniacslk/dhcp/dhcpv4"
	"github.com/insomniacslk/dhcp/dhcpv6"
	"github.com/insomniacslk/dhcp/rfc1035label"
	"verif/seq/fw"
	"verif/seq/ref/labelref"
)

// ---------------------------------------------------------------- counters

const shards = 64

// counter indices
const (
	kMust = iota
	kMay
	kMayAccepted
	kReject
	kUnspec
	kUnspecAccepted
	kLibAccepted
	kEdits
	kEditsChanged
	kEditsEqual
	kEditsSkipped
	kN
)

type stats struct {
	n   [shards][kN + (8 - kN%8)]atomic.Int64 // one shard ≥ one cache line
	why [shards][16]atomic.Int64
}

func whyIndex(w string) int {
	switch w {
	case labelref.WhyOverrun:
		return 0
	case labelref.WhyTruncPtr:
		return 1
	case labelref.WhyLoop:
		return 2
	case labelref.WhyReserved:
		return 3
	case labelref.WhyPtrOutside:
		return 4
	case labelref.WhyPtrUnterm:
		return 5
	case labelref.WhyLong:
		return 6
	case labelref.WhyChain:
		return 7
	case labelref.WhyRoot:
		return 8
	}
	return 15
}

func (s *stats) add(order int64, k int, d int64) { s.n[(order>>10)&(shards-1)][k].Add(d) }
func (s *stats) addWhy(order int64, w string)    { s.why[(order>>10)&(shards-1)][whyIndex(w)].Add(1) }
func (s *stats) sum(k int) (t int64) {
	for i := range s.n {
		t += s.n[i][k].Load()
	}
	return
}
func (s *stats) sumWhy(w string) (t int64) {
	for i := range s.why {
		t += s.why[i][whyIndex(w)].Load()
	}
	return
}

// ---------------------------------------------------------------- subjects

// subject is one library entry point that decodes a name list.
type subject struct {
	name   string // observer name in fingerprints
	decode func(b []byte) (*rfc1035label.Labels, error)
	gotest func(in []byte, tail string) string
}

var direct = &subject{
	name:   "rfc1035label.FromBytes",
	decode: rfc1035label.FromBytes,
	gotest: func(in []byte, tail string) string {
		return fmt.Sprintf(`func TestC19Replay(t *testing.T) {
	in, _ := hex.DecodeString(%q)
	l, err := rfc1035label.FromBytes(append([]byte(nil), in...))
	t.Logf("err=%%v labels=%%q", err, l)
%s}`, fw.Hex(in), tail)
	},
}

func cp(b []byte) []byte { return append(make([]byte, 0, len(b)), b...) }

func sameNames(a, b []string) bool {
	if len(a) != len(b) {
		return false
	}
	for i := range a {
		if a[i] != b[i] {
			return false
		}
	}
	return true
}

func q(names []string) string { return fmt.Sprintf("%q", names) }

// inputClass is the stable input-class part of a fingerprint.
func inputClass(r *labelref.Result) string {
	switch r.Class {
	case labelref.MustAccept, labelref.MayReject:
		return r.Features()
	case labelref.Reject:
		return "reject:" + r.Why
	}
	return "unspecified:" + r.Why
}

// safeDecode runs the subject on a fresh copy of in.
func safeDecode(s *subject, in []byte) (l *rfc1035label.Labels, err error, pv any, st string) {
	buf := cp(in)
	pv, st = fw.Safe(func() { l, err = s.decode(buf) })
	return
}

func safeToBytes(l *rfc1035label.Labels) (out []byte, pv any, st string) {
	pv, st = fw.Safe(func() { out = l.ToBytes() })
	return
}

// ---------------------------------------------------------------- decode oracle

type checker struct {
	c  *fw.Ctx
	st *stats
	// editCap > 0 limits edit positions to the first/last editCap names (large structural inputs only)
	editCap int
}

// decodeCase applies oracle (b), and (c) when the library accepts.
// It returns the reference class.
func (k *checker) decodeCase(s *subject, scope string, order int64, in []byte, doEdits bool) labelref.Class {
	c := k.c
	ref := labelref.DecodeFull(in)
	l, err, pv, stk := safeDecode(s, in)
	if pv != nil {
		c.Report(fw.Violation{Fingerprint: s.name + "|panic|" + fw.PanicSite(stk), Order: order, Scope: scope, Input: fw.Hex(in),
			Observed: fmt.Sprintf("panic: %v at %s", pv, stk), Expected: "names or an error", Explain: "decoding must not panic", GoTest: s.gotest(in, "")})
		return ref.Class
	}
	// determinism: a second decode of an equal, freshly allocated buffer
	l2, err2, pv2, _ := safeDecode(s, in)
	if pv2 != nil || (err == nil) != (err2 == nil) || (err == nil && !sameNames(l.Labels, l2.Labels)) {
		c.Report(fw.Violation{Fingerprint: s.name + "|determinism|" + inputClass(&ref), Order: order, Scope: scope, Input: fw.Hex(in),
			Observed: fmt.Sprintf("first: err=%v names=%v; second: err=%v names=%v panic=%v", err, namesOf(l), err2, namesOf(l2), pv2),
			Expected: "the same result twice", Explain: "decoding the same bytes twice gave different results", GoTest: s.gotest(in, "")})
		return ref.Class
	}
	accepted := err == nil
	if accepted {
		k.st.add(order, kLibAccepted, 1)
	}
	switch ref.Class {
	case labelref.MustAccept:
		k.st.add(order, kMust, 1)
		if !accepted {
			c.Report(fw.Violation{Fingerprint: s.name + "|must-accept:rejected|" + inputClass(&ref), Order: order, Scope: scope, Input: fw.Hex(in),
				Observed: fmt.Sprintf("error: %v", err), Expected: "names " + q(ref.Names),
				Explain: "well-formed name list (plain labels / single-level in-buffer pointers / trailing partial name) rejected",
				GoTest:  s.gotest(in, fmt.Sprintf("\tif err != nil || fmt.Sprintf(\"%%q\", l.Labels) != %q {\n\t\tt.Fatalf(\"want %%s\", %q)\n\t}\n", q(ref.Names), q(ref.Names)))})
			return ref.Class
		}
		if !sameNames(l.Labels, ref.Names) {
			c.Report(fw.Violation{Fingerprint: s.name + "|must-accept:names|" + inputClass(&ref), Order: order, Scope: scope, Input: fw.Hex(in),
				Observed: "names " + q(l.Labels), Expected: "names " + q(ref.Names),
				Explain: "decoded names differ from the names RFC 1035 §3.1/§4.1.4 (RFC 4704 §4.2 for a trailing partial name) assign to these bytes",
				GoTest:  s.gotest(in, fmt.Sprintf("\tif err != nil || fmt.Sprintf(\"%%q\", l.Labels) != %q {\n\t\tt.Fatalf(\"want %%s\", %q)\n\t}\n", q(ref.Names), q(ref.Names)))})
		}
	case labelref.MayReject:
		k.st.add(order, kMay, 1)
		k.st.addWhy(order, ref.Why)
		if accepted {
			k.st.add(order, kMayAccepted, 1)
			if !sameNames(l.Labels, ref.Names) {
				c.Report(fw.Violation{Fingerprint: s.name + "|may-reject:names|" + inputClass(&ref), Order: order, Scope: scope, Input: fw.Hex(in),
					Observed: "names " + q(l.Labels), Expected: "an error, or names " + q(ref.Names),
					Explain: "input of the " + ref.Why + " class accepted with names other than those RFC 1035 assigns",
					GoTest:  s.gotest(in, fmt.Sprintf("\tif err == nil && fmt.Sprintf(\"%%q\", l.Labels) != %q {\n\t\tt.Fatalf(\"want error or %%s\", %q)\n\t}\n", q(ref.Names), q(ref.Names)))})
			}
		}
	case labelref.Reject:
		k.st.add(order, kReject, 1)
		k.st.addWhy(order, ref.Why)
		if accepted {
			c.Report(fw.Violation{Fingerprint: s.name + "|reject:accepted|" + ref.Why, Order: order, Scope: scope, Input: fw.Hex(in),
				Observed: "accepted with names " + q(l.Labels), Expected: "an error (" + ref.Why + ")",
				Explain: "the bytes have no reading under RFC 1035 (" + ref.Why + ") but were accepted",
				GoTest:  s.gotest(in, "\tif err == nil {\n\t\tt.Fatal(\"want an error\")\n\t}\n")})
		}
	case labelref.Unspecified:
		k.st.add(order, kUnspec, 1)
		k.st.addWhy(order, ref.Why)
		if accepted {
			k.st.add(order, kUnspecAccepted, 1)
		}
	}
	if accepted && doEdits {
		k.edits(s, scope, order, in, l, &ref)
	}
	return ref.Class
}

func namesOf(l *rfc1035label.Labels) any {
	if l == nil {
		return nil
	}
	return q(l.Labels)
}

// ---------------------------------------------------------------- edits (c)

// okList: every name is the root or a valid RFC 1035 name, so "encodes the
// changed names" has a defined expected value.
func okList(names []string) bool {
	for _, n := range names {
		if n != "" && !labelref.ValidName(n) {
			return false
		}
	}
	return true
}

func diffLen(n string) string {
	if n == "" {
		return "q"
	}
	return n + ".q"
}

// sameLenDifferent returns a name of the same length with a different last byte ("" if n is empty).
func sameLenDifferent(n string) string {
	if n == "" {
		return ""
	}
	b := []byte(n)
	if b[len(b)-1] == 'z' {
		b[len(b)-1] = 'y'
	} else {
		b[len(b)-1] = 'z'
	}
	return string(b)
}

// otherCase flips the case of the first ASCII letter (n itself if it has none).
func otherCase(n string) string {
	b := []byte(n)
	for i, x := range b {
		if x >= 'a' && x <= 'z' || x >= 'A' && x <= 'Z' {
			b[i] = x ^ 0x20
			return string(b)
		}
	}
	return n
}

func (k *checker) edits(s *subject, scope string, order int64, in []byte, l0 *rfc1035label.Labels, ref *labelref.Result) {
	c := k.c
	cls := func() string { return inputClass(ref) }
	N := append([]string(nil), l0.Labels...)
	n := len(N)

	// unmodified: ToBytes returns exactly the original bytes, Length agrees
	out, pv, stk := safeToBytes(l0)
	if pv != nil {
		c.Report(fw.Violation{Fingerprint: "Labels.ToBytes|panic|" + fw.PanicSite(stk), Order: order, Scope: scope, Input: fw.Hex(in),
			Observed: fmt.Sprintf("panic: %v at %s", pv, stk), Expected: "bytes", GoTest: s.gotest(in, "\t_ = l.ToBytes()\n")})
		return
	}
	if !bytes.Equal(out, in) {
		c.Report(fw.Violation{Fingerprint: "Labels.ToBytes|unmodified≠original|" + cls(), Order: order, Scope: scope, Input: fw.Hex(in),
			Observed: "ToBytes = " + fw.HexShort(out) + " (names " + q(N) + ")", Expected: "the original bytes " + fw.HexShort(in),
			Explain: "a label set parsed from bytes and not modified must re-encode to exactly those bytes",
			GoTest:  s.gotest(in, "\tif !bytes.Equal(l.ToBytes(), in) {\n\t\tt.Fatalf(\"ToBytes=%x\", l.ToBytes())\n\t}\n")})
	}
	var ln int
	if pv, _ := fw.Safe(func() { ln = l0.Length() }); pv != nil || ln != len(out) {
		c.Report(fw.Violation{Fingerprint: "Labels.Length|≠len(ToBytes)|" + cls(), Order: order, Scope: scope, Input: fw.Hex(in),
			Observed: fmt.Sprintf("Length()=%d panic=%v", ln, pv), Expected: fmt.Sprintf("%d", len(out)), GoTest: s.gotest(in, "\tt.Log(l.Length(), len(l.ToBytes()))\n")})
	}
	// ToBytes on the unmodified set is itself repeatable
	if out2, _, _ := safeToBytes(l0); !bytes.Equal(out2, out) {
		c.Report(fw.Violation{Fingerprint: "Labels.ToBytes|determinism|" + cls(), Order: order, Scope: scope, Input: fw.Hex(in),
			Observed: fw.HexShort(out2) + " after " + fw.HexShort(out), Expected: "same bytes twice", GoTest: s.gotest(in, "\tt.Logf(\"%x %x\", l.ToBytes(), l.ToBytes())\n")})
	}

	one := func(kind string, stmtf func() string, newList []string, apply func(l *rfc1035label.Labels)) {
		l, err, pv, _ := safeDecode(s, in)
		if pv != nil || err != nil {
			return // determinism violation is reported by decodeCase
		}
		// the set has already been encoded once when the edit happens (a stale cached encoding would show)
		safeToBytes(l)
		apply(l)
		got, pv, stk := safeToBytes(l)
		k.st.add(order, kEdits, 1)
		// afterwards: put the parsed names back; the set must again encode these names — as the original
		// bytes or as their plain encoding (the statement allows either once the names have been changed)
		defer func() {
			l.Labels = append([]string(nil), N...)
			back, pv, _ := safeToBytes(l)
			// ... and a second, different change must be encoded as well
			second := append(append([]string(nil), N...), "y.second")
			l.Labels = second
			if got2, pv2, _ := safeToBytes(l); pv2 == nil && okList(second) && !bytes.Equal(got2, labelref.Encode(second)) {
				stmt := stmtf() + "; l.ToBytes(); l.Labels = " + fmt.Sprintf("%#v", second)
				c.Report(fw.Violation{Fingerprint: "Labels.ToBytes|edit:" + kind + "+second-edit:changed-list≠encoding|" + cls(), Order: order, Scope: scope,
					Input:    fw.Hex(in) + " ; " + stmt,
					Observed: "ToBytes = " + fw.HexShort(got2), Expected: fw.HexShort(labelref.Encode(second)) + " = encoding of " + q(second),
					Explain: "after the names were changed a second time the set must encode the names it holds now", GoTest: s.gotest(in, "\t"+stmt+"\n\tt.Logf(\"%x\", l.ToBytes())\n")})
			}
			if pv != nil || bytes.Equal(back, in) || !okList(N) || bytes.Equal(back, labelref.Encode(N)) {
				return
			}
			stmt := stmtf() + "; l.ToBytes(); l.Labels = " + fmt.Sprintf("%#v", N)
			c.Report(fw.Violation{Fingerprint: "Labels.ToBytes|edit:" + kind + "+restore:neither-original-nor-encoding|" + cls(), Order: order, Scope: scope,
				Input:    fw.Hex(in) + " ; " + stmt,
				Observed: "ToBytes = " + fw.HexShort(back), Expected: "the original bytes " + fw.HexShort(in) + " or the plain encoding " + fw.HexShort(labelref.Encode(N)) + " of " + q(N),
				Explain: "after an edit and setting the parsed names again the set must encode those names", GoTest: s.gotest(in, "\t"+stmt+"\n\tt.Logf(\"%x\", l.ToBytes())\n")})
		}()
		stmt := ""
		gt := func() string {
			stmt = stmtf()
			return s.gotest(in, "\t"+stmt+"\n\tt.Logf(\"%x\", l.ToBytes())\n")
		}
		if pv != nil {
			g := gt()
			c.Report(fw.Violation{Fingerprint: "Labels.ToBytes|panic|" + fw.PanicSite(stk), Order: order, Scope: scope, Input: fw.Hex(in) + " ; " + stmt,
				Observed: fmt.Sprintf("panic: %v at %s", pv, stk), Expected: "bytes", GoTest: g})
			return
		}
		if sameNames(newList, N) {
			k.st.add(order, kEditsEqual, 1)
			if !bytes.Equal(got, in) {
				g := gt()
				c.Report(fw.Violation{Fingerprint: "Labels.ToBytes|edit:" + kind + ":equal-list≠original|" + cls(), Order: order, Scope: scope,
					Input:    fw.Hex(in) + " ; " + stmt,
					Observed: "ToBytes = " + fw.HexShort(got), Expected: "the original bytes " + fw.HexShort(in) + " (names still " + q(N) + ")",
					Explain: "the edit leaves the name list equal to the parsed one, so the original bytes must still be returned", GoTest: g})
			}
			return
		}
		if !okList(newList) {
			k.st.add(order, kEditsSkipped, 1)
			return
		}
		k.st.add(order, kEditsChanged, 1)
		want := labelref.Encode(newList)
		if !bytes.Equal(got, want) {
			g := gt()
			c.Report(fw.Violation{Fingerprint: "Labels.ToBytes|edit:" + kind + ":changed-list≠encoding|" + cls(), Order: order, Scope: scope,
				Input:    fw.Hex(in) + " ; " + stmt,
				Observed: "ToBytes = " + fw.HexShort(got), Expected: fw.HexShort(want) + " = encoding of " + q(newList) + " (parsed names were " + q(N) + ")",
				Explain: "after the names were changed the set must encode the changed names", GoTest: g})
		}
	}

	with := func(i int, v string) []string {
		x := append([]string(nil), N...)
		x[i] = v
		return x
	}
	for i := 0; i < n; i++ {
		if k.editCap > 0 && i >= k.editCap && i < n-k.editCap {
			continue
		}
		i := i
		del := append(append([]string{}, N[:i]...), N[i+1:]...)
		one("delete", func() string { return fmt.Sprintf("l.Labels = append(l.Labels[:%d:%d], l.Labels[%d:]...)", i, i, i+1) }, del,
			func(l *rfc1035label.Labels) { l.Labels = append(l.Labels[:i:i], l.Labels[i+1:]...) })
		d1 := diffLen(N[i])
		one("replace-different", func() string { return fmt.Sprintf("l.Labels[%d] = %q", i, d1) }, with(i, d1),
			func(l *rfc1035label.Labels) { l.Labels[i] = d1 })
		if d2 := sameLenDifferent(N[i]); d2 != "" {
			one("replace-same-length", func() string { return fmt.Sprintf("l.Labels[%d] = %q", i, d2) }, with(i, d2),
				func(l *rfc1035label.Labels) { l.Labels[i] = d2 })
		}
		if d3 := otherCase(N[i]); d3 != N[i] {
			one("replace-other-case", func() string { return fmt.Sprintf("l.Labels[%d] = %q", i, d3) }, with(i, d3),
				func(l *rfc1035label.Labels) { l.Labels[i] = d3 })
		}
		eq := string(append([]byte(nil), N[i]...))
		one("replace-equal", func() string { return fmt.Sprintf("l.Labels[%d] = %q", i, eq) }, with(i, eq),
			func(l *rfc1035label.Labels) { l.Labels[i] = eq })
		if i+1 < n {
			sw := append([]string(nil), N...)
			sw[i], sw[i+1] = sw[i+1], sw[i]
			one("swap", func() string {
				return fmt.Sprintf("l.Labels[%d], l.Labels[%d] = l.Labels[%d], l.Labels[%d]", i, i+1, i+1, i)
			}, sw,
				func(l *rfc1035label.Labels) { l.Labels[i], l.Labels[i+1] = l.Labels[i+1], l.Labels[i] })
		}
	}
	app := append(append([]string(nil), N...), "zz.a")
	one("append", func() string { return `l.Labels = append(l.Labels, "zz.a")` }, app, func(l *rfc1035label.Labels) { l.Labels = append(l.Labels, "zz.a") })
	one("clear", func() string { return `l.Labels = nil` }, nil, func(l *rfc1035label.Labels) { l.Labels = nil })
	one("clear", func() string { return `l.Labels = []string{}` }, []string{}, func(l *rfc1035label.Labels) { l.Labels = []string{} })
	one("replace-equal", func() string { return `l.Labels = append([]string(nil), l.Labels...)` }, N, func(l *rfc1035label.Labels) { l.Labels = append([]string(nil), l.Labels...) })
}

// ---------------------------------------------------------------- encode oracle (a)

func encTest(names []string) string {
	return fmt.Sprintf(`func TestC19Replay(t *testing.T) {
	names := %#v
	b := (&rfc1035label.Labels{Labels: names}).ToBytes()
	l, err := rfc1035label.FromBytes(append([]byte(nil), b...))
	t.Logf("bytes=%%x err=%%v labels=%%q", b, err, l)
}`, names)
}

// encodeCase applies oracle (a) to one name list. Returns true when the list is valid
// (every name ≤ 255 octets), i.e. the full oracle applied.
func (k *checker) encodeCase(scope string, order int64, names []string) bool {
	c := k.c
	mk := func() *rfc1035label.Labels { return &rfc1035label.Labels{Labels: append([]string(nil), names...)} }
	wire, pv, stk := safeToBytes(mk())
	if pv != nil {
		c.Report(fw.Violation{Fingerprint: "Labels.ToBytes|panic|" + fw.PanicSite(stk), Order: order, Scope: scope, Input: q(names),
			Observed: fmt.Sprintf("panic: %v at %s", pv, stk), Expected: "bytes", GoTest: encTest(names)})
		return false
	}
	if w2, _, _ := safeToBytes(mk()); !bytes.Equal(w2, wire) {
		c.Report(fw.Violation{Fingerprint: "Labels.ToBytes|determinism|encode", Order: order, Scope: scope, Input: q(names),
			Observed: fw.HexShort(w2) + " vs " + fw.HexShort(wire), Expected: "same bytes twice", GoTest: encTest(names)})
	}
	valid := labelref.ValidList(names)
	l, err, pv, stk := safeDecode(direct, wire)
	if pv != nil {
		c.Report(fw.Violation{Fingerprint: "rfc1035label.FromBytes|panic|" + fw.PanicSite(stk), Order: order, Scope: scope, Input: q(names),
			Observed: fmt.Sprintf("panic: %v at %s", pv, stk), Expected: "names or error", GoTest: encTest(names)})
		return false
	}
	if !valid {
		// names over 255 octets: UNSPECIFIED — stability only
		k.st.add(order, kUnspec, 1)
		k.st.addWhy(order, labelref.WhyLong)
		if err == nil {
			k.st.add(order, kUnspecAccepted, 1)
			if out, _, _ := safeToBytes(l); !bytes.Equal(out, wire) {
				c.Report(fw.Violation{Fingerprint: "Labels.ToBytes|unmodified≠original|encode:" + labelref.WhyLong, Order: order, Scope: scope, Input: q(names),
					Observed: fw.HexShort(out), Expected: fw.HexShort(wire), GoTest: encTest(names)})
			}
		}
		return false
	}
	want := labelref.Encode(names)
	if !bytes.Equal(wire, want) {
		c.Report(fw.Violation{Fingerprint: "Labels.ToBytes|encode≠canonical|fresh-list", Order: order, Scope: scope, Input: q(names),
			Observed: fw.HexShort(wire), Expected: fw.HexShort(want),
			Explain: "encoding of a fresh list differs from the RFC 1035 §3.1 encoding (length-prefixed labels, zero terminator)", GoTest: encTest(names)})
	}
	rc, rn, why := labelref.Decode(wire)
	if rc != labelref.MustAccept || !sameNames(rn, names) {
		c.Report(fw.Violation{Fingerprint: "Labels.ToBytes|encode→reference-decode|fresh-list", Order: order, Scope: scope, Input: q(names),
			Observed: fmt.Sprintf("bytes %s read by the reference decoder: %v %s names %s", fw.HexShort(wire), rc, why, q(rn)), Expected: "names " + q(names),
			Explain: "the encoded bytes do not carry the given names under RFC 1035", GoTest: encTest(names)})
	}
	if err != nil || !sameNames(l.Labels, names) {
		c.Report(fw.Violation{Fingerprint: "rfc1035label.FromBytes|encode→decode|fresh-list", Order: order, Scope: scope, Input: q(names),
			Observed: fmt.Sprintf("bytes %s decode to err=%v names=%v", fw.HexShort(wire), err, namesOf(l)), Expected: "names " + q(names),
			Explain: "encoding a list of valid names and decoding it must return the same list", GoTest: encTest(names)})
		return true
	}
	if out, _, _ := safeToBytes(l); !bytes.Equal(out, wire) {
		c.Report(fw.Violation{Fingerprint: "Labels.ToBytes|unmodified≠original|encode", Order: order, Scope: scope, Input: q(names),
			Observed: fw.HexShort(out), Expected: fw.HexShort(wire), GoTest: encTest(names)})
	}
	var ln int
	if pv, _ := fw.Safe(func() { ln = mk().Length() }); pv != nil || ln != len(wire) {
		c.Report(fw.Violation{Fingerprint: "Labels.Length|≠len(ToBytes)|encode", Order: order, Scope: scope, Input: q(names),
			Observed: fmt.Sprintf("Length()=%d panic=%v", ln, pv), Expected: fmt.Sprint(len(wire)), GoTest: encTest(names)})
	}
	return true
}

// ---------------------------------------------------------------- enumeration helpers

func pow(b int64, e int) int64 {
	r := int64(1)
	for i := 0; i < e; i++ {
		r *= b
	}
	return r
}

// allNames: every name of 1..maxLabels labels over the label set, fewest labels first.
func allNames(labels []string, maxLabels int) []string {
	var out []string
	prev := []string{""}
	for l := 1; l <= maxLabels; l++ {
		var next []string
		for _, p := range prev {
			for _, lb := range labels {
				if p == "" {
					next = append(next, lb)
				} else {
					next = append(next, p+"."+lb)
				}
			}
		}
		out = append(out, next...)
		prev = next
	}
	return out
}

func rep(b byte, n int) string { return strings.Repeat(string([]byte{b}), n) }

// filler returns names (single label each) whose encoding occupies exactly size bytes
// (size == 0 or size ≥ 3).
func filler(size int) []byte {
	var out []byte
	id := 0
	for size > 0 {
		s := size
		if s > 65 {
			s = 65
		}
		if r := size - s; r == 1 || r == 2 {
			s -= 3
		}
		k := s - 2
		out = append(out, byte(k))
		for j := 0; j < k; j++ {
			out = append(out, byte('a'+(id+j)%26))
		}
		out = append(out, 0)
		size -= s
		id++
	}
	return out
}

func ptr(off int) []byte { return []byte{0xc0 | byte(off>>8), byte(off)} }

func cat(parts ...[]byte) []byte {
	var out []byte
	for _, p := range parts {
		out = append(out, p...)
	}
	return out
}

func label(b byte, n int) []byte { return append([]byte{byte(n)}, bytes.Repeat([]byte{b}, n)...) }

// ---------------------------------------------------------------- Run

func Run(c *fw.Ctx) {
	c.SetRule("every case is enumerated once (all name lists over the label set up to the bound; every byte string over the alphabet up to the bound; structural cases de-duplicated by a set). " +
		"Non-trivial = (a) the name list is valid (every name ≤ 255 octets) so encoding, reference decoding and library decoding are all compared; " +
		"(b) the byte string is MUST-ACCEPT for the reference decoder (names are compared and every single edit is explored). " +
		"(e) both strings of the pair are MUST-ACCEPT and different. " +
		"MAY-REJECT / REJECT / UNSPECIFIED cases are evaluated with their own oracle and counted separately (coverage.classes).")
	// the cases allocate many short-lived objects and keep nothing: collect less often during the run
	defer debug.SetGCPercent(debug.SetGCPercent(800))
	st := &stats{}
	k := &checker{c: c, st: st}
	var order int64
	phase := map[string]float64{}
	t0 := time.Now()
	mark := func(name string) {
		phase[name] = float64(time.Since(t0).Milliseconds()) / 1000
		t0 = time.Now()
	}
	// ---------------- (a) encode → decode
	L63 := rep('x', 63)
	// quick: {"a","bc",63-byte, one label holding the bytes 00 ff c0}; thorough adds a 6-label set with
	// the three special bytes in separate labels, and 4 names x 4 labels over two smaller sets
	labels4 := []string{"a", "bc", L63, "\x00\xff\xc0"}
	labels6 := []string{"a", "bc", L63, "\x00", "\xffz", "\xc0\x00"}
	type encScope struct {
		name      string
		labels    []string
		maxLabels int
		maxNames  int
	}
	escopes := []encScope{{"a1:lists", labels4, 3, 3}}
	if c.Thorough() {
		escopes = append(escopes,
			encScope{"a2:lists", labels6, 3, 3},
			encScope{"a4:lists", []string{"a\xc0", L63}, 4, 4},
			encScope{"a5:lists", labels4, 2, 4})
	}
	for _, es := range escopes {
		names := allNames(es.labels, es.maxLabels)
		nn := int64(len(names))
		var total int64
		for cnt := 0; cnt <= es.maxNames; cnt++ {
			tot := pow(nn, cnt)
			cnt := cnt
			b0 := order
			c.Range(tot, func(i int64) {
				list := make([]string, cnt)
				x := i
				for j := 0; j < cnt; j++ {
					list[j] = names[x%nn]
					x /= nn
				}
				if k.encodeCase(es.name, b0+i, list) {
					c.Nontrivial(1)
					if i%2000003 == 11 {
						c.Sample(map[string]any{"scope": es.name, "names": q(list)})
					}
				}
			})
			order += tot
			total += tot
		}
		ls := make([]string, len(es.labels))
		for i, l := range es.labels {
			ls[i] = fmt.Sprintf("%d bytes %s", len(l), fw.HexShort([]byte(l)))
		}
		c.Scope(es.name, "what", "all lists of 0..max_names names, each of 1..max_labels labels from the label set; Labels{names}.ToBytes() == labelref.Encode(names); labelref.Decode(bytes) == names; FromBytes(bytes).Labels == names",
			"label_set", ls, "max_labels", es.maxLabels, "max_names", es.maxNames, "distinct_names", nn, "cases", total)
	}
	mark("a:lists")
	// deterministic extremes
	{
		var lists [][]string
		for _, ll := range []int{1, 2, 30, 31, 62, 63} {
			for nNames := 1; nNames <= 8; nNames++ {
				for nLab := 1; nLab <= 8; nLab++ {
					var list []string
					for a := 0; a < nNames; a++ {
						var ls []string
						for b := 0; b < nLab; b++ {
							ls = append(ls, rep(byte('A'+(a*8+b)%26), ll))
						}
						list = append(list, strings.Join(ls, "."))
					}
					lists = append(lists, list)
				}
			}
		}
		// exactly 255 / 256 octets
		lists = append(lists,
			[]string{strings.Join([]string{rep('p', 63), rep('q', 63), rep('r', 63), rep('s', 61)}, ".")},
			[]string{strings.Join([]string{rep('p', 63), rep('q', 63), rep('r', 63), rep('s', 62)}, ".")},
			[]string{strings.Join([]string{rep('p', 63), rep('q', 63), rep('r', 63), rep('s', 61)}, "."), "a", strings.Join([]string{rep('p', 63), rep('q', 63), rep('r', 63), rep('s', 61)}, ".")},
		)
		// every label length 1..63, alone and as second label
		for ll := 1; ll <= 63; ll++ {
			lists = append(lists, []string{rep('m', ll)}, []string{"a." + rep('m', ll), rep('n', ll) + ".b"})
		}
		// every byte value except '.' as a one-byte label; all of them in one list
		var allb []string
		for v := 0; v < 256; v++ {
			if v == '.' {
				continue
			}
			lists = append(lists, []string{string([]byte{byte(v)})}, []string{"a" + string([]byte{byte(v)}) + "b." + string([]byte{byte(v), byte(v)})})
			allb = append(allb, string([]byte{byte(v)}))
		}
		for i := 0; i+8 <= len(allb); i += 8 {
			lists = append(lists, []string{strings.Join(allb[i:i+8], "."), strings.Join(allb[i:i+4], ".")})
		}
		nv := 0
		for _, l := range lists {
			if k.encodeCase("a3:extremes", order, l) {
				c.Nontrivial(1)
				nv++
			}
			c.Eval(1)
			order++
		}
		c.Scope("a3:extremes", "what", "deterministic extreme lists: 1..8 names x 1..8 labels x label length {1,2,30,31,62,63} (names over 255 octets are UNSPECIFIED: stability only); names of exactly 255 and 256 octets; every label length 1..63; every byte value except 0x2e inside labels",
			"cases", len(lists), "valid_lists", nv)
		c.Sample(map[string]any{"scope": "a3:extremes", "names": "8 names x 8 labels x 30-byte labels (249 octets each)"})
	}

	mark("a3:extremes")
	// ---------------- (b)+(c) decode: all strings over the alphabet
	alpha := []byte{0x00, 0x01, 0x02, 0x03, 0x3f, 0x40, 0xc0, 0xc1, 'a', 'b'}
	maxLen := 7
	if c.Thorough() {
		maxLen = 8
	}
	var inAlpha [256]bool
	for _, a := range alpha {
		inAlpha[a] = true
	}
	{
		var total int64
		na := int64(len(alpha))
		for ln := 0; ln <= maxLen; ln++ {
			tot := pow(na, ln)
			ln := ln
			b0 := order
			c.Range(tot, func(i int64) {
				in := make([]byte, ln)
				x := i
				for j := 0; j < ln; j++ {
					in[j] = alpha[x%na]
					x /= na
				}
				if k.decodeCase(direct, "b1:all-strings", b0+i, in, true) == labelref.MustAccept {
					c.Nontrivial(1)
					if i%1000003 == 17 {
						_, names, _ := labelref.Decode(in)
						c.Sample(map[string]any{"scope": "b1:all-strings", "bytes": fw.Hex(in), "names": q(names)})
					}
				}
			})
			order += tot
			total += tot
		}
		c.Scope("b1:all-strings", "what", "every byte string over the alphabet up to max_len decoded by rfc1035label.FromBytes and classified by labelref; for every accepted string all single edits of the parsed list",
			"alphabet", fw.Hex(alpha), "max_len", maxLen, "cases", total)
	}

	mark("b1:all-strings")
	// ---------------- (a4) the constructor: NewLabels() is the empty list
	{
		l := rfc1035label.NewLabels()
		c.Eval(1)
		if l == nil || len(l.Labels) != 0 || len(l.ToBytes()) != 0 || l.Length() != 0 {
			obs := "nil"
			if l != nil {
				obs = fmt.Sprintf("names %q, encoding %x, Length() %d", l.Labels, l.ToBytes(), l.Length())
			}
			c.Report(fw.Violation{Fingerprint: "rfc1035label.NewLabels|not-the-empty-list", Order: order, Scope: "a4:constructor", Input: "rfc1035label.NewLabels()",
				Observed: obs, Expected: "a label set with no names that encodes to no bytes", Explain: "encoding the empty list of names and decoding it returns the empty list"})
		} else {
			l.Labels = append(l.Labels, "a.example")
			if want := labelref.Encode([]string{"a.example"}); !bytes.Equal(l.ToBytes(), want) {
				c.Report(fw.Violation{Fingerprint: "rfc1035label.NewLabels|append-then-encode", Order: order, Scope: "a4:constructor", Input: `l := rfc1035label.NewLabels(); l.Labels = append(l.Labels, "a.example")`,
					Observed: fmt.Sprintf("encoding %x", l.ToBytes()), Expected: fmt.Sprintf("%x", want)})
			}
			c.Nontrivial(1)
		}
		order++
		c.Scope("a4:constructor", "what", "NewLabels() is the empty list; a name appended to it is encoded", "cases", 1)
	}
	// ---------------- (b2) structural cases
	{
		seen := map[string]struct{}{}
		var cases [][]byte
		add := func(b []byte) {
			if _, ok := seen[string(b)]; ok {
				return
			}
			small := len(b) <= maxLen
			for _, x := range b {
				if !inAlpha[x] {
					small = false
				}
			}
			if small {
				return // already part of b1
			}
			seen[string(b)] = struct{}{}
			cases = append(cases, b)
		}
		pre := []byte{1, 'p', 0}
		// every value of a length byte, with exactly enough / one byte short / unterminated data
		for v := 1; v < 256; v++ {
			data := bytes.Repeat([]byte{'x'}, v)
			for _, p := range [][]byte{nil, pre} {
				add(cat(p, []byte{byte(v)}, data, []byte{0}))
				add(cat(p, []byte{byte(v)}, data))
				add(cat(p, []byte{byte(v)}, data[:v-1]))
				add(cat(p, []byte{byte(v)}, data, []byte{0}, pre))
				add(cat(p, []byte{1, 'y', byte(v)}, data, []byte{0}))
			}
		}
		// 255 / 256 octet names, terminated, partial, and completed through a pointer
		l63 := func(b byte) []byte { return label(b, 63) }
		for _, last := range []int{60, 61, 62, 63} {
			add(cat(l63('p'), l63('q'), l63('r'), label('s', last), []byte{0}))
			add(cat(l63('p'), l63('q'), l63('r'), label('s', last)))
			add(cat(label('s', last), []byte{0}, l63('p'), l63('q'), l63('r'), ptr(0)))
			add(cat(l63('p'), l63('q'), l63('r'), ptr(3*64+2), label('s', last), []byte{0}))
		}
		// pointers at larger offsets: every high byte, four low bytes
		tgt := []byte{3, 't', 'g', 't', 1, 'x', 0}
		los := []int{0x00, 0xff}
		if c.Thorough() {
			los = []int{0x00, 0x01, 0x7f, 0xff}
		}
		for hi := 0; hi < 64; hi++ {
			for _, lo := range los {
				T := hi<<8 | lo
				if T == 0 || T >= 3 {
					f := filler(T)
					add(cat(f, tgt, ptr(T)))                                      // whole name is a pointer
					add(cat(f, tgt, []byte{1, 'p'}, ptr(T)))                      // label + pointer
					add(cat(f, tgt, []byte{1, 'p'}, ptr(T), []byte{1, 'z', 0}))   // something after the pointer
					add(cat(f, tgt, []byte{1, 'p'}, ptr(T), []byte{2, 'z', 'z'})) // ... a trailing partial name
					add(cat(f, tgt, []byte{1, 'p'}, ptr(T+4)))                    // into the middle of the target name (label "x")
					add(cat(f, tgt, ptr(T+6)))                                    // to the terminator: root
					add(cat(f, tgt, []byte{1, 'p'}, ptr(T+6)))                    // label + pointer to the terminator
					add(cat(f, tgt, []byte{1, 'p'}, ptr(T), ptr(T+7)))            // chain: pointer to "p"+pointer
					add(cat(f, tgt[:6], []byte{1, 'p'}, ptr(T)))                  // target not terminated before the next label: reads tgt.x.p + pointer → chain/loop
					add(cat(f, tgt, ptr(T+9)))                                    // pointer to its own end == len(buf): leaves the buffer
					add(cat(f, tgt, ptr(T+7)))                                    // self pointer: loop
					add(cat(f, []byte{1, 'p'}, ptr(T+4), tgt[:6]))                // forward pointer to an unterminated tail
					add(cat(f, tgt, []byte{1, 'p', 0xc0 | byte(hi)}))             // truncated pointer
				}
				if T-2 == 0 || T-2 >= 3 {
					add(cat(ptr(T), filler(T-2), tgt))                    // forward pointer from offset 0
					add(cat(ptr(T), filler(T-2), tgt, []byte{1, 'z', 0})) // forward pointer, more names behind
				}
			}
		}
		// every pointer byte pair (all 64 high values x low {00,ff}) inside a short buffer: leaves the buffer
		for hi := 1; hi < 64; hi++ {
			add(cat(tgt, []byte{0xc0 | byte(hi), 0x00}))
			add(cat(tgt, []byte{1, 'p', 0xc0 | byte(hi), 0x00}, tgt))
		}
		kk := &checker{c: c, st: st, editCap: 3}
		b0 := order
		nonTriv := atomic.Int64{}
		c.Range(int64(len(cases)), func(i int64) {
			if kk.decodeCase(direct, "b2:structural", b0+i, cases[i], true) == labelref.MustAccept {
				c.Nontrivial(1)
				nonTriv.Add(1)
			}
		})
		order += int64(len(cases))
		c.Scope("b2:structural", "what", "label length byte 1..255 with exact / short / unterminated data; names of 254..257 octets (terminated, partial, completed by a pointer); pointers with every high offset byte 0..63 x low {00,ff} (thorough: {00,01,7f,ff}): backward, forward, label+pointer, mid-name, to the terminator, chain, self, to len(buf), to an unterminated tail, truncated; edits at the first/last 3 names",
			"cases", len(cases), "must_accept", nonTriv.Load())
		c.Sample(map[string]any{"scope": "b2:structural", "shape": "filler(0x3fff bytes of names) 03 'tgt' 01 'x' 00 01 'p' ff ff", "names": "…, \"tgt.x\", \"p.tgt.x\""})
	}

	mark("b2:structural")
	// ---------------- (d) the DHCP entry points that embed a name list
	{
		wl := 4
		if c.Thorough() {
			wl = 5
		}
		subs := wrappers()
		na := int64(len(alpha))
		var total int64
		for _, s := range subs {
			s := s
			for ln := 1; ln <= wl; ln++ {
				tot := pow(na, ln)
				ln := ln
				b0 := order
				c.Range(tot, func(i int64) {
					in := make([]byte, ln)
					x := i
					for j := 0; j < ln; j++ {
						in[j] = alpha[x%na]
						x /= na
					}
					if k.decodeCase(s, "d:"+s.name, b0+i, in, true) == labelref.MustAccept {
						c.Nontrivial(1)
					}
				})
				order += tot
				total += tot
			}
		}
		var nm []string
		for _, s := range subs {
			nm = append(nm, s.name)
		}
		c.Scope("d:entry-points", "what", "the decode and edit oracles applied to the name list as seen through each DHCP entry point, every byte string over the alphabet of length 1..max_len as the option value",
			"entry_points", nm, "alphabet", fw.Hex(alpha), "max_len", wl, "cases", total)
	}

	mark("d:entry-points")
	// ---------------- (e) re-parse into the same object
	k.reparse(alpha, &order)
	mark("e:reparse")
	c.Extra("phase_wall_s", phase)
	// ---------------- counts
	for _, w := range []string{labelref.WhyReserved, labelref.WhyPtrOutside, labelref.WhyPtrUnterm, labelref.WhyLong} {
		if n := st.sumWhy(w); n > 0 {
			c.Unspecified(w, n)
		}
	}
	c.Extra("classes", map[string]any{
		"MUST-ACCEPT": st.sum(kMust),
		"MAY-REJECT": map[string]any{"total": st.sum(kMay), "accepted_by_library": st.sum(kMayAccepted),
			labelref.WhyChain: st.sumWhy(labelref.WhyChain), labelref.WhyRoot: st.sumWhy(labelref.WhyRoot)},
		"REJECT": map[string]any{"total": st.sum(kReject), labelref.WhyOverrun: st.sumWhy(labelref.WhyOverrun),
			labelref.WhyTruncPtr: st.sumWhy(labelref.WhyTruncPtr), labelref.WhyLoop: st.sumWhy(labelref.WhyLoop)},
		"UNSPECIFIED": map[string]any{"total": st.sum(kUnspec), "accepted_by_library": st.sum(kUnspecAccepted)},
	})
	c.Extra("library_accepted_strings", st.sum(kLibAccepted))
	c.Extra("edits", map[string]any{"total": st.sum(kEdits), "list_changed_compared_with_reference_encoding": st.sum(kEditsChanged),
		"list_equal_compared_with_original_bytes": st.sum(kEditsEqual), "changed_list_not_a_valid_name_list_skipped": st.sum(kEditsSkipped)})
	c.AddStates(st.sum(kLibAccepted)+st.sum(kEdits), st.sum(kEdits), 0)
	c.Assume(
		"reference decoder/encoder labelref written from RFC 1035 §3.1/§4.1.4 and RFC 4704 §4.2 (stdlib only); classification rules in its package comment",
		"names are compared in the library's representation: labels joined with '.', root = \"\", a trailing partial name looks like a complete one; no label contains 0x2e",
		"UNSPECIFIED classes (stability only): reserved label types 01/10, pointer offset ≥ len(buffer), pointer to a name that runs to the end of the buffer without terminator, names over 255 octets",
		"MAY-REJECT classes (error, or exactly the RFC names): pointer chains, root names (zero labels)",
		"edits: delete name i, replace name i (longer / same length / other letter case / equal copy), swap neighbours, append, clear (nil and empty), replace the slice by an equal copy; each on a freshly parsed set that has been encoded once before; after each edit the parsed names are put back and the set must then give the original bytes or the plain encoding of those names, and a second change (append) must be encoded too",
		"after an edit, 'encodes the changed names' is checked when every name of the new list is the root or a valid name (labels 1..63, ≤ 255 octets); otherwise only counted",
	)
}

// wrappers returns the DHCP entry points through which a name list is decoded.
func wrappers() []*subject {
	v6test := func(code string, wrap string) func(in []byte, tail string) string {
		return func(in []byte, tail string) string {
			return fmt.Sprintf(`func TestC19Replay(t *testing.T) {
	in, _ := hex.DecodeString(%q) // the name-list bytes
	opt, err := dhcpv6.ParseOption(%s, %s)
	t.Logf("opt=%%v err=%%v", opt, err)
}`, fw.Hex(in), code, wrap)
		}
	}
	return []*subject{
		{
			name: "dhcpv6.ParseOption(24).DomainSearchList",
			decode: func(b []byte) (*rfc1035label.Labels, error) {
				o, err := dhcpv6.ParseOption(dhcpv6.OptionDomainSearchList, b)
				if err != nil {
					return nil, err
				}
				l := dhcpv6.MessageOptions{Options: dhcpv6.Options{o}}.DomainSearchList()
				if l == nil {
					return nil, fmt.Errorf("option 24 parsed to %T without a name list", o)
				}
				return l, nil
			},
			gotest: v6test("dhcpv6.OptionDomainSearchList", "in"),
		},
		{
			name: "dhcpv6.ParseOption(39).DomainName",
			decode: func(b []byte) (*rfc1035label.Labels, error) {
				o, err := dhcpv6.ParseOption(dhcpv6.OptionFQDN, append([]byte{0x01}, b...))
				if err != nil {
					return nil, err
				}
				f, ok := o.(*dhcpv6.OptFQDN)
				if !ok || f.DomainName == nil {
					return nil, fmt.Errorf("option 39 parsed to %T", o)
				}
				return f.DomainName, nil
			},
			gotest: v6test("dhcpv6.OptionFQDN", "append([]byte{1}, in...)"),
		},
		{
			name: "dhcpv6.ParseOption(56/3).Labels",
			decode: func(b []byte) (*rfc1035label.Labels, error) {
				v := append([]byte{0, 3, byte(len(b) >> 8), byte(len(b))}, b...)
				o, err := dhcpv6.ParseOption(dhcpv6.OptionNTPServer, v)
				if err != nil {
					return nil, err
				}
				n, ok := o.(*dhcpv6.OptNTPServer)
				if !ok || len(n.Suboptions) != 1 {
					return nil, fmt.Errorf("option 56 parsed to %T", o)
				}
				f, ok := n.Suboptions[0].(*dhcpv6.NTPSuboptionSrvFQDN)
				if !ok {
					return nil, fmt.Errorf("sub-option parsed to %T", n.Suboptions[0])
				}
				return &f.Labels, nil
			},
			gotest: v6test("dhcpv6.OptionNTPServer", "append([]byte{0, 3, 0, byte(len(in))}, in...)"),
		},
		{
			name: "dhcpv4.DomainSearch(119)",
			decode: func(b []byte) (*rfc1035label.Labels, error) {
				p := &dhcpv4.DHCPv4{Options: dhcpv4.Options{}}
				p.UpdateOption(dhcpv4.OptGeneric(dhcpv4.OptionDNSDomainSearchList, b))
				l := p.DomainSearch()
				if l == nil {
					return nil, fmt.Errorf("DomainSearch() == nil")
				}
				return l, nil
			},
			gotest: func(in []byte, tail string) string {
				return fmt.Sprintf(`func TestC19Replay(t *testing.T) {
	in, _ := hex.DecodeString(%q)
	p := &dhcpv4.DHCPv4{Options: dhcpv4.Options{}}
	p.UpdateOption(dhcpv4.OptGeneric(dhcpv4.OptionDNSDomainSearchList, in))
	t.Logf("%%q", p.DomainSearch())
}`, fw.Hex(in))
			},
		},
	}
}
