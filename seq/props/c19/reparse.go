package c19

import (
	"bytes"
	"fmt"
	"sync/atomic"

	"github.com/insomniacslk/dhcp/rfc1035label"
	"verif/seq/fw"
	"verif/seq/ref/labelref"
)

// (e) re-parse into the same object.
//
// "A label set parsed from bytes re-encodes to exactly those bytes until its
// names are changed": a value copy of a parsed set, and the slice an earlier
// ToBytes returned, must not be affected when the *same object* is parsed into
// again. For every ordered pair (A, B) of accepted strings:
//
//	var X rfc1035label.Labels; X.FromBytes(A); encA := X.ToBytes(); Y := X
//	X.FromBytes(B); encB := X.ToBytes(); Z := X
//	X.FromBytes(A)
//
// require Y (never modified) still encodes A and holds names(A), encA still
// holds A's bytes, X after the second parse encodes B with names(B), and after
// the third parse X is A again while Z still encodes B. names(·) are those of an
// independent fresh parse (compared with the reference decoder in scope b).

type rpItem struct {
	b     []byte
	names []string
	must  bool // MUST-ACCEPT for the reference decoder
}

func rpTest(a, b []byte) string {
	return fmt.Sprintf(`func TestC19Reparse(t *testing.T) {
	a, _ := hex.DecodeString(%q)
	b, _ := hex.DecodeString(%q)
	var x rfc1035label.Labels
	if err := x.FromBytes(append([]byte{}, a...)); err != nil {
		t.Fatal(err)
	}
	encA := x.ToBytes()
	y := x // value copy of the parsed, unmodified set
	if err := x.FromBytes(append([]byte{}, b...)); err != nil {
		t.Fatal(err)
	}
	if !bytes.Equal(y.ToBytes(), a) || !bytes.Equal(encA, a) || !bytes.Equal(x.ToBytes(), b) {
		t.Fatalf("copy encodes %%x, earlier result now %%x (want %%x); re-parsed object encodes %%x (want %%x)", y.ToBytes(), encA, a, x.ToBytes(), b)
	}
}`, fw.Hex(a), fw.Hex(b))
}

func (k *checker) reparsePair(scope string, order int64, A, B *rpItem) {
	c := k.c
	const ob = "Labels.FromBytes|reparse-into-same-object|"
	in := func() string { return "A=" + fw.HexShort(A.b) + " B=" + fw.HexShort(B.b) }
	rep := func(cls, obs, exp, why string) {
		c.Report(fw.Violation{Fingerprint: ob + cls, Order: order, Scope: scope, Input: in(), Observed: obs, Expected: exp, Explain: why, GoTest: rpTest(A.b, B.b)})
	}
	var X rfc1035label.Labels
	var Y, Z rfc1035label.Labels
	var encA, encB, yb, xb, zb, xa []byte // yb, xb, zb, xa are copies taken at the time; encA, encB are the slices ToBytes returned
	var xNames []string
	var encAafterB []byte // what the slice returned by the first ToBytes holds once B has been parsed into X
	var errA, errB, errA2 error
	step := 0
	pv, stk := fw.Safe(func() {
		errA = X.FromBytes(cp(A.b))
		if errA != nil {
			return
		}
		step = 1
		encA = X.ToBytes()
		Y = X
		errB = X.FromBytes(cp(B.b))
		if errB != nil {
			return
		}
		step = 2
		encAafterB = cp(encA)
		yb = cp(Y.ToBytes())
		encB = X.ToBytes()
		xb = cp(encB)
		xNames = append([]string(nil), X.Labels...)
		Z = X
		errA2 = X.FromBytes(cp(A.b))
		if errA2 != nil {
			return
		}
		step = 3
		xa = cp(X.ToBytes())
		zb = cp(Z.ToBytes())
	})
	if pv != nil {
		c.Report(fw.Violation{Fingerprint: "Labels.FromBytes|panic|" + fw.PanicSite(stk), Order: order, Scope: scope, Input: in(),
			Observed: fmt.Sprintf("panic: %v at %s", pv, stk), Expected: "no panic", GoTest: rpTest(A.b, B.b)})
		return
	}
	if step < 3 {
		rep("parse-result-depends-on-object-state",
			fmt.Sprintf("errors: first A %v, B %v, second A %v", errA, errB, errA2), "all three parses succeed (both strings are accepted by a fresh parse)",
			"parsing into an object that already holds a parsed set must give the same verdict as a fresh parse")
		return
	}
	if !bytes.Equal(encAafterB, A.b) {
		rep("earlier-ToBytes-result-changed", "slice returned by X.ToBytes() before the re-parse now holds "+fw.HexShort(encAafterB), "still "+fw.HexShort(A.b),
			"bytes handed out by ToBytes were overwritten when the object was parsed into again")
	}
	if !bytes.Equal(yb, A.b) || !sameNames(Y.Labels, A.names) {
		rep("value-copy-changed", "Y.ToBytes() = "+fw.HexShort(yb)+" Y.Labels = "+q(Y.Labels), "bytes "+fw.HexShort(A.b)+" names "+q(A.names),
			"Y := X is an unmodified parsed set of A; parsing B into X must not change what Y encodes")
	}
	if !bytes.Equal(xb, B.b) || !sameNames(xNames, B.names) {
		rep("reparsed-object-wrong", "X.ToBytes() = "+fw.HexShort(xb)+" X.Labels = "+q(xNames), "bytes "+fw.HexShort(B.b)+" names "+q(B.names),
			"after X.FromBytes(B) the object is a parsed set of B")
	}
	if !bytes.Equal(xa, A.b) || !sameNames(X.Labels, A.names) {
		rep("parse-again-differs", "after parsing A, B, A: X.ToBytes() = "+fw.HexShort(xa)+" X.Labels = "+q(X.Labels), "bytes "+fw.HexShort(A.b)+" names "+q(A.names),
			"decoding the same bytes into the same object again must give the same set")
	}
	if !bytes.Equal(zb, B.b) || !bytes.Equal(encB, B.b) || !sameNames(Z.Labels, B.names) {
		rep("value-copy-changed", "copy of the set parsed from B encodes "+fw.HexShort(zb)+" names "+q(Z.Labels)+", its earlier ToBytes result now holds "+fw.HexShort(encB), "bytes "+fw.HexShort(B.b),
			"Z := X (parsed from B) must not change when A is parsed into X again")
	}
}

// reparse runs clause (e). Returns the number of pairs.
func (k *checker) reparse(alpha []byte, order *int64) {
	c := k.c
	small := 4
	// accepted strings of the small scope, in enumeration order
	var items []*rpItem
	var rejected [][]byte
	addItem := func(b []byte) bool {
		l, err, pv, _ := safeDecode(direct, b)
		if pv == nil && err != nil && len(rejected) < 64 {
			rejected = append(rejected, cp(b))
		}
		if pv != nil || err != nil {
			return false
		}
		cl, _, _ := labelref.Decode(b)
		items = append(items, &rpItem{b: cp(b), names: append([]string(nil), l.Labels...), must: cl == labelref.MustAccept})
		return true
	}
	na := int64(len(alpha))
	var enumerated int64
	for ln := 0; ln <= small; ln++ {
		tot := pow(na, ln)
		for i := int64(0); i < tot; i++ {
			in := make([]byte, ln)
			x := i
			for j := 0; j < ln; j++ {
				in[j] = alpha[x%na]
				x /= na
			}
			addItem(in)
			enumerated++
		}
	}
	nSmall := len(items)
	// structural set: compressed, partial, long labels, pointers at offsets ≥ 256, sizes around each other
	tgt := []byte{3, 't', 'g', 't', 1, 'x', 0}
	structural := [][]byte{
		{9, 's', 'l', 'a', 'c', 'k', 'w', 'a', 'r', 'e', 2, 'i', 't', 0},
		{9, 's', 'l', 'a', 'c', 'k', 'w', 'a', 'r', 'e', 2, 'i', 't', 0, 9, 'i', 'n', 's', 'o', 'm', 'n', 'i', 'a', 'c', 0xc0, 0},
		{9, 's', 'l', 'a', 'c', 'k', 'w', 'a', 'r', 'e', 2, 'i', 't', 0, 4, 'm', 'a', 'i', 'l', 0xc0, 10, 0xc0, 0},
		{8, 'h', 'o', 's', 't', 'n', 'a', 'm', 'e'},
		{4, 'h', 'o', 's', 't', 0, 3, 'p', 'a', 'r'},
		cat(tgt, ptr(0)),
		cat(tgt, []byte{1, 'p'}, ptr(4)),
		cat(ptr(2), tgt),
		cat(tgt, []byte{1, 'p'}, ptr(0), []byte{2, 'z', 'z'}),
		cat(label('x', 63), []byte{0}),
		cat(label('x', 63), []byte{0}, ptr(0)),
		cat(label('p', 63), label('q', 63), label('r', 63), label('s', 61), []byte{0}),
		cat(label('s', 61), []byte{0}, label('p', 63), label('q', 63), label('r', 63), ptr(0)),
		cat(filler(0x100), tgt, []byte{1, 'p'}, ptr(0x100)),
		cat(filler(0x1ff), tgt, ptr(0x1ff), []byte{1, 'z'}),
		cat(ptr(0x203), []byte{0}, filler(0x200), tgt),
		cat(filler(0x400), tgt),
	}
	for _, sz := range []int{5, 6, 7, 8, 9, 15, 16, 17, 31, 32, 33, 63, 64, 65} { // buffer sizes around allocator size classes
		structural = append(structural, filler(sz), cat(filler(sz), ptr(0)), cat(filler(sz), []byte{1, 'e'}))
	}
	for _, s := range structural {
		if !addItem(s) {
			c.Report(fw.Violation{Fingerprint: "rfc1035label.FromBytes|must-accept:rejected|reparse-structural-item", Order: *order, Scope: "e:reparse", Input: fw.Hex(s),
				Observed: "rejected", Expected: "accepted", GoTest: direct.gotest(s, "")})
		}
	}
	// thorough: additionally every accepted string of length small+1, paired (both ways) with all of the above
	n4 := int64(len(items))
	extraLen := 0
	if c.Thorough() {
		extraLen = small + 1
		tot := pow(na, extraLen)
		for i := int64(0); i < tot; i++ {
			in := make([]byte, extraLen)
			x := i
			for j := 0; j < extraLen; j++ {
				in[j] = alpha[x%na]
				x /= na
			}
			addItem(in)
			enumerated++
		}
	}
	n := int64(len(items))
	var nontriv atomic.Int64
	run := func(total int64, pick func(i int64) (*rpItem, *rpItem)) {
		b0 := *order
		c.Range(total, func(i int64) {
			A, B := pick(i)
			k.reparsePair("e:reparse", b0+i, A, B)
			if A.must && B.must && !bytes.Equal(A.b, B.b) {
				nontriv.Add(1)
			}
		})
		*order += total
	}
	// A from the base set, B from everything
	run(n4*n, func(i int64) (*rpItem, *rpItem) { return items[i/n], items[i%n] })
	// A from the extra length, B from the base set
	run((n-n4)*n4, func(i int64) (*rpItem, *rpItem) { return items[n4+i/n4], items[i%n4] })
	// (f) a parse that FAILS leaves the object as it was: a set that holds names (parsed earlier, or
	// built by hand) still encodes them after FromBytes returned an error
	rejected = append(rejected, []byte{5, 'a'}, []byte{0xc0}, cat(tgt, ptr(0), ptr(7)), []byte{0x40, 'a', 0}, cat(label('x', 63), []byte{64}))
	nf := int64(len(rejected))
	var nFailed atomic.Int64
	b0 := *order
	c.Range(n4*nf, func(i int64) {
		A, R := items[i/nf], rejected[i%nf]
		for _, built := range []bool{false, true} {
			var X rfc1035label.Labels
			var wantB []byte
			var errR error
			var got []byte
			var names []string
			pv, stk := fw.Safe(func() {
				if built {
					X = rfc1035label.Labels{Labels: append([]string(nil), A.names...)}
				} else if X.FromBytes(cp(A.b)) != nil {
					return
				}
				wantB = cp(X.ToBytes())
				errR = X.FromBytes(cp(R))
				got = cp(X.ToBytes())
				names = append([]string(nil), X.Labels...)
			})
			if pv != nil {
				c.Report(fw.Violation{Fingerprint: "Labels.FromBytes|panic|" + fw.PanicSite(stk), Order: b0 + i, Scope: "f:failed-parse", Input: "A=" + fw.HexShort(A.b) + " R=" + fw.HexShort(R),
					Observed: fmt.Sprintf("panic: %v at %s", pv, stk), Expected: "no panic"})
				continue
			}
			if errR == nil {
				continue // accepted into a non-empty object although a fresh parse rejects it: clause (e) reports verdict differences
			}
			nFailed.Add(1)
			if !bytes.Equal(got, wantB) || !sameNames(names, A.names) {
				how := "parsed from " + fw.HexShort(A.b)
				if built {
					how = "built from the names " + q(A.names)
				}
				c.Report(fw.Violation{Fingerprint: "Labels.FromBytes|failed-parse-changes-the-object", Order: b0 + i, Scope: "f:failed-parse",
					Input:    "a label set " + how + "; then X.FromBytes(" + fw.HexShort(R) + ") returns an error",
					Observed: "afterwards X.ToBytes() = " + fw.HexShort(got) + ", X.Labels = " + q(names), Expected: "still " + fw.HexShort(wantB) + " and " + q(A.names),
					Explain: "decoding either fails or yields names: a failed decode must not leave the rejected bytes (or anything else) in the set, whose names were not changed"})
			}
		}
	})
	*order += n4 * nf
	c.Nontrivial(nFailed.Load())
	c.Scope("f:failed-parse", "what", "every base-set item A (parsed, and built by hand from its names) x every rejected string R: X.FromBytes(R) fails and X still encodes A", "rejected_strings", nf, "cases_with_failing_parse", nFailed.Load())
	pairs := n4*n + (n-n4)*n4
	extraDesc := "none (thorough tier only)"
	if extraLen > 0 {
		extraDesc = fmt.Sprintf("accepted strings of length %d: %d items", extraLen, n-n4)
	}
	c.Nontrivial(nontriv.Load())
	c.Scope("e:reparse", "what", "every ordered pair (A,B) of library-accepted strings with at least one of them in the base set: var X Labels; X.FromBytes(A); encA := X.ToBytes(); Y := X; X.FromBytes(B); Z := X; X.FromBytes(A) — Y and encA still A, X after B is B, Z still B, X after A again is A",
		"base_set", fmt.Sprintf("accepted strings over the alphabet of length ≤ %d (%d items) + %d structural items (compressed, partial, 63-byte labels, 255-octet names, pointers at offsets ≥ 256, buffer sizes 5..67)", small, nSmall, int(n4)-nSmall),
		"extra_set", extraDesc,
		"strings_enumerated", enumerated, "alphabet", fw.Hex(alpha), "pairs", pairs, "pairs_both_must_accept_and_different", nontriv.Load())
	c.Sample(map[string]any{"scope": "e:reparse", "A": "03 'tgt' 01 'x' 00 01 'p' c0 04", "B": "01 'a' 00", "names_A": `["tgt.x" "p.x"]`})
}
