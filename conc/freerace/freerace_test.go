// Package freerace is the supplementary free-running pass of DESIGN.md 3.4: the same kinds of
// scenarios as the controlled exploration, but with real goroutines on the un-instrumented packages
// under the Go race detector. A cooperative scheduler's hand-offs hide races from -race, so this pass
// covers accesses the source rewriter does not instrument. It samples schedules and is NOT the deciding
// step of any property; a report is a true positive by construction of the race detector.
package freerace

import (
	"context"
	"errors"
	"net"
	"sync"
	"testing"
	"time"

	"github.com/insomniacslk/dhcp/dhcpv4"
	"github.com/insomniacslk/dhcp/dhcpv4/nclient4"
	"github.com/insomniacslk/dhcp/dhcpv4/server4"
	"github.com/insomniacslk/dhcp/dhcpv6"
	"github.com/insomniacslk/dhcp/dhcpv6/nclient6"
	"github.com/insomniacslk/dhcp/dhcpv6/server6"
)

type dgram struct {
	b    []byte
	from net.Addr
}

type memConn struct {
	rx     chan dgram
	closed chan struct{}
	once   sync.Once
	onTx   func(b []byte)
}

func newConn() *memConn { return &memConn{rx: make(chan dgram, 1024), closed: make(chan struct{})} }

var errClosed = errors.New("use of closed network connection")

func (c *memConn) ReadFrom(b []byte) (int, net.Addr, error) {
	select {
	case <-c.closed:
		return 0, nil, errClosed
	case d := <-c.rx:
		return copy(b, d.b), d.from, nil
	}
}
func (c *memConn) WriteTo(b []byte, _ net.Addr) (int, error) {
	select {
	case <-c.closed:
		return 0, errClosed
	default:
	}
	if c.onTx != nil {
		c.onTx(append([]byte(nil), b...))
	}
	return len(b), nil
}
func (c *memConn) Close() error                     { c.once.Do(func() { close(c.closed) }); return nil }
func (c *memConn) LocalAddr() net.Addr              { return &net.UDPAddr{IP: net.IPv4(10, 0, 0, 2), Port: 68} }
func (c *memConn) SetDeadline(time.Time) error      { return nil }
func (c *memConn) SetReadDeadline(time.Time) error  { return nil }
func (c *memConn) SetWriteDeadline(time.Time) error { return nil }

var mac = net.HardwareAddr{2, 0, 0x5e, 0x10, 0, 1}
var peer = &net.UDPAddr{IP: net.IPv4(10, 0, 0, 1), Port: 67}

func TestClient4(t *testing.T) {
	for it := 0; it < 150; it++ {
		conn := newConn()
		// the "server": answers every transmission twice (second copy is late/duplicate), plus junk
		conn.onTx = func(b []byte) {
			req, err := dhcpv4.FromBytes(b)
			if err != nil {
				return
			}
			rep, _ := dhcpv4.NewReplyFromRequest(req, dhcpv4.WithMessageType(dhcpv4.MessageTypeOffer))
			conn.rx <- dgram{rep.ToBytes(), peer}
			conn.rx <- dgram{[]byte{1, 2, 3}, peer}
			conn.rx <- dgram{rep.ToBytes(), peer}
		}
		cl, err := nclient4.NewWithConn(conn, mac, nclient4.WithTimeout(5*time.Millisecond), nclient4.WithRetry(2))
		if err != nil {
			t.Fatal(err)
		}
		var wg sync.WaitGroup
		for k := 0; k < 4; k++ {
			k := k
			wg.Add(1)
			go func() {
				defer wg.Done()
				p, _ := dhcpv4.New(dhcpv4.WithTransactionID(dhcpv4.TransactionID{byte(k % 3), 1, 2, 3}), dhcpv4.WithHwAddr(mac))
				ctx, cancel := context.WithTimeout(context.Background(), 20*time.Millisecond)
				defer cancel()
				var m nclient4.Matcher
				if k%2 == 0 {
					m = nclient4.IsMessageType(dhcpv4.MessageTypeOffer)
				}
				r, err := cl.SendAndRead(ctx, peer, p, m)
				if err == nil && r == nil {
					t.Error("nil response with nil error")
				}
			}()
		}
		if it%3 == 0 {
			wg.Add(1)
			go func() { defer wg.Done(); time.Sleep(time.Duration(it%5) * time.Millisecond); cl.Close() }()
		}
		wg.Wait()
		cl.Close()
	}
}

func TestClient6(t *testing.T) {
	for it := 0; it < 150; it++ {
		conn := newConn()
		conn.onTx = func(b []byte) {
			req, err := dhcpv6.MessageFromBytes(b)
			if err != nil {
				return
			}
			rep := &dhcpv6.Message{MessageType: dhcpv6.MessageTypeReply, TransactionID: req.TransactionID}
			conn.rx <- dgram{rep.ToBytes(), peer}
			conn.rx <- dgram{[]byte{9}, peer}
			conn.rx <- dgram{rep.ToBytes(), peer}
		}
		cl, err := nclient6.NewWithConn(conn, mac, nclient6.WithTimeout(5*time.Millisecond), nclient6.WithRetry(2))
		if err != nil {
			t.Fatal(err)
		}
		var wg sync.WaitGroup
		for k := 0; k < 4; k++ {
			k := k
			wg.Add(1)
			go func() {
				defer wg.Done()
				p := &dhcpv6.Message{MessageType: dhcpv6.MessageTypeSolicit, TransactionID: dhcpv6.TransactionID{byte(k % 3), 4, 5}}
				ctx, cancel := context.WithTimeout(context.Background(), 20*time.Millisecond)
				defer cancel()
				r, err := cl.SendAndRead(ctx, peer, p, nil)
				if err == nil && r == nil {
					t.Error("nil response with nil error")
				}
			}()
		}
		if it%3 == 0 {
			wg.Add(1)
			go func() { defer wg.Done(); time.Sleep(time.Duration(it%5) * time.Millisecond); cl.Close() }()
		}
		wg.Wait()
		cl.Close()
	}
}

func TestServers(t *testing.T) {
	for it := 0; it < 100; it++ {
		c4, c6 := newConn(), newConn()
		var mu sync.Mutex
		seen := 0
		s4, _ := server4.NewServer("", nil, func(_ net.PacketConn, p net.Addr, m *dhcpv4.DHCPv4) {
			_ = m.Summary()
			_ = p.String()
			m.UpdateOption(dhcpv4.OptHostName("h"))
			mu.Lock()
			seen++
			mu.Unlock()
		}, server4.WithConn(c4))
		s6, _ := server6.NewServer("", nil, func(_ net.PacketConn, p net.Addr, m dhcpv6.DHCPv6) {
			_ = m.Summary()
			m.AddOption(dhcpv6.OptElapsedTime(0))
			mu.Lock()
			seen++
			mu.Unlock()
		}, server6.WithConn(c6))
		var wg sync.WaitGroup
		wg.Add(2)
		go func() { defer wg.Done(); s4.Serve() }()
		go func() { defer wg.Done(); s6.Serve() }()
		for k := 0; k < 8; k++ {
			p, _ := dhcpv4.NewDiscovery(mac)
			c4.rx <- dgram{p.ToBytes(), &net.UDPAddr{Port: 68 + k}}
			c4.rx <- dgram{[]byte{0xff}, peer}
			m, _ := dhcpv6.NewSolicit(mac)
			r, _ := dhcpv6.EncapsulateRelay(m, dhcpv6.MessageTypeRelayForward, net.ParseIP("2001:db8::1"), net.ParseIP("fe80::1"))
			c6.rx <- dgram{r.ToBytes(), peer}
			c6.rx <- dgram{[]byte{}, peer}
		}
		time.Sleep(2 * time.Millisecond)
		s4.Close()
		s6.Close()
		wg.Wait()
	}
}
