package main

import (
	"fmt"
	"time"

	"github.com/insomniacslk/dhcp/dhcpv4/nclient4"
	"github.com/insomniacslk/dhcp/verifshim/vs"
)

// clientScen adapts ClientScenario to the Scenario interface.
type clientScen struct {
	s   *ClientScenario
	fam string
	run *clientRun
}

func (c *clientScen) ID() string       { return c.s.Name }
func (c *clientScen) Family() string   { return c.fam }
func (c *clientScen) Describe() string { return c.s.String() }
func (c *clientScen) MaxBound() int    { return c.s.Bound }
func (c *clientScen) Body() func() {
	b := c.s.body(&c.run)
	return func() { detCtr = 0; b() }
}
func (c *clientScen) Check(ex *vs.Exec) (string, string) { return c.s.checkClient(c.run, ex) }

func fam46(v6 bool) string {
	if v6 {
		return "v6"
	}
	return "v4"
}

// ---- C12: retransmission schedule ----

func c12Scenarios(tier string) []Scenario {
	var out []Scenario
	add := func(s *ClientScenario, fam string) {
		s.Rules = "SL"
		s.Name = fmt.Sprintf("c12-%04d", len(out))
		out = append(out, &clientScen{s: s, fam: fam + "-" + fam46(s.V6)})
	}
	Ts := []int64{1, 10, 1000, 5000}
	maxN := 6
	for _, v6 := range []bool{false, true} {
		for _, T := range Ts {
			for n := -1; n <= maxN; n++ {
				for pkt := 0; pkt < 3; pkt++ {
					for dest := 0; dest < 3; dest++ {
						if tier == "quick" && (pkt+dest)%2 == 1 && n > 3 {
							continue
						}
						// silence
						s := &ClientScenario{V6: v6, T: T, Tries: n, BufCap: -1, CloseAt: -1, Bound: 0,
							Calls: []CallSpec{{ID: 0, Match: MatchGood, CancelAt: -1, After: -1, Pkt: pkt, Dest: dest}}}
						if n < 0 {
							s.Horizon = T * 1023
						}
						add(s, "silence")
					}
				}
				// accepted response in try k at several offsets; rejected datagram before it
				kmax := n
				if n < 0 {
					kmax = 5
				}
				for k := 1; k <= kmax; k++ {
					start := T * ((int64(1) << uint(k-1)) - 1)
					dl := T * ((int64(1) << uint(k)) - 1)
					offs := map[int64]bool{start: true, start + 1: true, (start + dl) / 2: true, dl - 1: true}
					for off := range offs {
						if off < start || off >= dl {
							continue
						}
						for _, withBad := range []bool{false, true} {
							s := &ClientScenario{V6: v6, T: T, Tries: n, BufCap: -1, CloseAt: -1, Bound: 0,
								Calls: []CallSpec{{ID: 0, Match: MatchGood, CancelAt: -1, After: -1}}}
							if withBad {
								if off == start {
									continue
								}
								s.Dgs = append(s.Dgs, DgSpec{At: start, Kind: DgBad, ID: 0})
							}
							s.Dgs = append(s.Dgs, DgSpec{At: off, Kind: DgGood, ID: 0})
							if n < 0 {
								s.Horizon = T * 1023
							}
							add(s, "response-in-try")
						}
					}
				}
			}
		}
	}
	// another client with another configuration exists in the process: a client's schedule is its own
	for _, v6 := range []bool{false, true} {
		for _, T := range []int64{1, 10} {
			for n := 1; n <= 3; n++ {
				for _, good := range []bool{false, true} {
					s := &ClientScenario{V6: v6, T: T, Tries: n, BufCap: -1, CloseAt: -1, Bound: 0, Decoy: true,
						Calls: []CallSpec{{ID: 0, Match: MatchGood, CancelAt: -1, After: -1}}}
					if good {
						s.Dgs = []DgSpec{{At: T*((int64(1)<<uint(n-1))-1) + T/2, Kind: DgGood, ID: 0}}
					}
					add(s, "other-client-in-process")
				}
			}
		}
	}
	// several calls on the same client: the schedule of a call must not depend on earlier calls
	for _, v6 := range []bool{false, true} {
		for _, T := range []int64{1, 10} {
			for n := 1; n <= 3; n++ {
				for _, first := range []int{0, 1} { // first call: silence (all tries time out) / answered in its last try
					s := &ClientScenario{V6: v6, T: T, Tries: n, BufCap: -1, CloseAt: -1, Bound: 0,
						Calls: []CallSpec{{ID: 0, Match: MatchGood, CancelAt: -1, After: -1}, {ID: 1, Match: MatchGood, CancelAt: -1, After: 0, Dest: 1},
							{ID: 0, Match: MatchGood, CancelAt: -1, After: 1, Pkt: 1}}}
					if first == 1 {
						s.Dgs = []DgSpec{{At: T*((int64(1)<<uint(n-1))-1) + T/2, Kind: DgGood, ID: 0}}
					}
					add(s, "sequential-calls")
				}
			}
		}
		// the context ends (by cancellation and by deadline) in the middle of every try
		for _, T := range []int64{2, 10} {
			for n := -1; n <= 4; n++ {
				kmax := n
				if n < 0 {
					kmax = 4
				}
				for k := 1; k <= kmax; k++ {
					mid := T*((int64(1)<<uint(k-1))-1) + T*(int64(1)<<uint(k-1))/2
					for _, dl := range []bool{false, true} {
						add(&ClientScenario{V6: v6, T: T, Tries: n, BufCap: -1, CloseAt: -1, Bound: 0,
							Calls: []CallSpec{{ID: 0, Match: MatchGood, CancelAt: mid, Deadline: dl, After: -1}}}, "context-ends-mid-try")
					}
				}
			}
		}
	}
	// DHCPv4 client left at its exported defaults (nclient4.DefaultTimeout, nclient4.DefaultRetries)
	{
		T, n := int64(nclient4.DefaultTimeout/time.Millisecond), nclient4.DefaultRetries
		add(&ClientScenario{V6: false, Defaults: true, T: T, Tries: n, BufCap: -1, CloseAt: -1, Bound: 0,
			Calls: []CallSpec{{ID: 0, Match: MatchGood, CancelAt: -1, After: -1}}}, "defaults")
		for k := 1; k <= n; k++ {
			at := T*((int64(1)<<uint(k-1))-1) + T/2
			add(&ClientScenario{V6: false, Defaults: true, T: T, Tries: n, BufCap: -1, CloseAt: -1, Bound: 0,
				Calls: []CallSpec{{ID: 0, Match: MatchGood, CancelAt: -1, After: -1}}, Dgs: []DgSpec{{At: at, Kind: DgGood, ID: 0}}}, "defaults")
		}
	}
	// a transmission fails (plain error / timeout-typed error as after an expired write deadline): the call ends there and
	// then with that error - a failed write is not an unanswered try
	for _, v6 := range []bool{false, true} {
		for _, T := range []int64{1, 10} {
			for _, n := range []int{-1, 1, 2, 3, 4} {
				kmax := n
				if n < 0 || n > 3 {
					kmax = 3
				}
				for k := 0; k < kmax; k++ {
					for fk := 0; fk < 2; fk++ {
						s := &ClientScenario{V6: v6, T: T, Tries: n, BufCap: -1, CloseAt: -1, Bound: 0, FailWrites: []int{k}, FailKind: fk,
							Calls: []CallSpec{{ID: 0, Match: MatchGood, CancelAt: -1, After: -1}}}
						if n < 0 {
							s.Horizon = T * 1023
						}
						add(s, "transmission-fails")
					}
				}
			}
		}
	}
	// logging configurations with a request whose option values are in no canonical order: every transmission is still
	// the request's encoding (the loggers print the message around each transmission)
	for _, v6 := range []bool{false, true} {
		for n := 1; n <= 3; n++ {
			for lk := 0; lk < 3; lk++ {
				if lk == 2 && v6 {
					continue
				}
				for _, good := range []bool{false, true} {
					s := &ClientScenario{V6: v6, T: 2, Tries: n, BufCap: -1, CloseAt: -1, Bound: 0, Log: true, LogKind: lk,
						Calls: []CallSpec{{ID: 0, Match: MatchGood, CancelAt: -1, After: -1, Pkt: 3}}}
					if good {
						s.Dgs = []DgSpec{{At: 2*((int64(1)<<uint(n-1))-1) + 1, Kind: DgGood, ID: 0}}
					}
					add(s, "logging")
				}
			}
		}
	}
	// preemption-bounded schedules: every scenario with at most 3 tries also at bound 1 (quick) / 2 (thorough)
	b := 1
	if tier == "thorough" {
		b = 2
	}
	n := len(out)
	for i := 0; i < n; i++ {
		cs := out[i].(*clientScen)
		if cs.s.Tries < 0 || cs.s.T > 10 || (cs.s.Tries > 3 && tier != "thorough") {
			continue
		}
		cp := *cs.s
		cp.Bound = b
		if tier == "thorough" && cs.s.Tries <= 2 {
			cp.Bound = 3
		}
		cp.Name = fmt.Sprintf("c12-b%d-%04d", b, i)
		out = append(out, &clientScen{s: &cp, fam: cs.fam + "-bounded"})
	}
	return out
}
