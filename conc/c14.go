package main

import (
	"bytes"
	"errors"
	"fmt"
	"net"
	"sort"
	"strings"
	"time"

	"github.com/insomniacslk/dhcp/dhcpv4"
	"github.com/insomniacslk/dhcp/dhcpv4/server4"
	"github.com/insomniacslk/dhcp/dhcpv6"
	"github.com/insomniacslk/dhcp/dhcpv6/server6"
	"github.com/insomniacslk/dhcp/rfc1035label"
	"github.com/insomniacslk/dhcp/verifshim/vs"
)

// ---- C14: servers dispatch each valid datagram exactly once and survive bad ones ----

type SrvDgKind int

const (
	SdValidA  SrvDgKind = iota // plain message, sender 10.0.0.7:68
	SdValidB                   // different type / relay-nested, sender 10.0.0.8:1068
	SdGarbage                  // undecodable
	SdEmpty                    // zero-length read
	SdNoIP                     // valid, sender has no IP (nil)
	SdZeroIP                   // valid, sender 0.0.0.0:1068
	SdOdd                      // decodable but unusual: hlen 200 (v4) / unknown message type (v6)
	SdFull                     // as validA, padded to exactly the 4096 bytes the servers read at a time
	SdBig                      // as validA, 1500 bytes
	SdBare                     // decodable but without the usual content: v6 a relay-forward header carrying no relay-message option
	// (only an interface-id), alternately nested in another relay; v4 a BOOTP packet without a message-type option
)

var sdNames = [...]string{"validA", "validB", "garbage", "empty", "noip", "zeroip", "odd", "full4096", "big1500", "bare"}

type ServerScenario struct {
	Name     string
	V6       bool
	Dgs      []SrvDgKind
	Spaced   bool  // datagrams 1 tick apart instead of all at t=0
	EndErrAt int   // position at which a read error is injected (-1: none)
	CloseAt  int64 // tick at which another thread calls Close (-1: none)
	Handler  int   // 0 immediate, 1 sleeps one tick then re-reads its message, 2 mutates its message then sleeps,
	// 3 blocks until the serve loop has consumed the whole script (outlives every later read)
	Bound   int
	Log     bool // the server is configured with its debug logger (output discarded)
	LogKind int  // with Log: 0 debug logger, 1 summary logger, 2 a caller-supplied logger that renders every message
}

func (s *ServerScenario) String() string {
	var ks []string
	for _, k := range s.Dgs {
		ks = append(ks, sdNames[k])
	}
	lg := ""
	if s.Log {
		lg = " " + [...]string{"debug-logger", "summary-logger", "custom-logger"}[s.LogKind]
	}
	return fmt.Sprintf("%s %s dgs=[%s] spaced=%v readerr@%d close@%d handler=%d%s", s.Name, fam46(s.V6), strings.Join(ks, ","), s.Spaced, s.EndErrAt, s.CloseAt, s.Handler, lg)
}

type srvInvocation struct {
	serial  int
	peer    string
	peerObj net.Addr
	atStart []byte
	atEnd   func() []byte
	mutated bool
	seq     int
}

type srvRun struct {
	h        *History
	inv      []*srvInvocation
	serveRet error
	returned bool
	conn     *Conn
	expect   map[int][]byte // serial -> expected re-encoding of the decoded datagram
	sender   map[int]net.Addr
	raw      map[int][]byte
}

var errInjectedRead = errors.New("injected read error")

func srvDatagram(v6 bool, k SrvDgKind, serial int) ([]byte, net.Addr) {
	var from net.Addr = &net.UDPAddr{IP: net.IPv4(10, 0, 0, 7), Port: 68}
	if v6 {
		from = &net.UDPAddr{IP: net.ParseIP("fe80::7"), Port: 546, Zone: "eth1"} // link-local senders carry a zone; it is part of the peer
	}
	switch k {
	case SdGarbage:
		return []byte{0xff, byte(serial)}, from
	case SdEmpty:
		return []byte{}, from
	case SdNoIP:
		// "no IP address" has two representations in a net.UDPAddr: a nil slice and an empty one
		from = &net.UDPAddr{IP: nil, Port: 68}
		if serial%2 == 1 {
			from = &net.UDPAddr{IP: net.IP{}, Port: 68}
		}
	case SdZeroIP:
		from = &net.UDPAddr{IP: net.IPv4zero, Port: 1068}
		if v6 {
			from = &net.UDPAddr{IP: net.IPv6unspecified, Port: 1546}
		}
	case SdValidB:
		from = &net.UDPAddr{IP: net.IPv4(10, 0, 0, 8), Port: 1068}
		if v6 {
			from = &net.UDPAddr{IP: net.ParseIP("2001:db8::8"), Port: 1546}
		}
	}
	tag := []byte{byte(serial >> 8), byte(serial)}
	if !v6 {
		p, _ := dhcpv4.New(dhcpv4.WithTransactionID(dhcpv4.TransactionID{1, 2, 3, byte(serial)}), dhcpv4.WithHwAddr(clientMAC),
			dhcpv4.WithMessageType(dhcpv4.MessageTypeDiscover), dhcpv4.WithGeneric(dhcpv4.GenericOptionCode(serialOpt4), tag))
		if k == SdValidB {
			p.UpdateOption(dhcpv4.OptMessageType(dhcpv4.MessageTypeRequest))
			p.UpdateOption(dhcpv4.OptHostName(fmt.Sprintf("host-%d", serial)))
			p.UpdateOption(dhcpv4.OptRequestedIPAddress(net.IPv4(10, 0, 0, byte(100+serial))))
			tagS := fmt.Sprintf("dg-%03d", serial)
			p.UpdateOption(dhcpv4.OptClientIdentifier([]byte("id-" + tagS)))
			p.UpdateOption(dhcpv4.OptRelayAgentInfo(dhcpv4.OptGeneric(dhcpv4.GenericOptionCode(1), []byte("ci-"+tagS)), dhcpv4.OptGeneric(dhcpv4.GenericOptionCode(2), []byte("ri-"+tagS))))
			p.UpdateOption(dhcpv4.OptUserClass("uc-" + tagS))
			p.UpdateOption(dhcpv4.OptDomainSearch(&rfc1035label.Labels{Labels: []string{tagS + ".example.org"}}))
			p.UpdateOption(dhcpv4.OptGeneric(dhcpv4.GenericOptionCode(231), bytes.Repeat([]byte(tagS), 50))) // 350 bytes: travels as two instances
		}
		if k == SdBare {
			p.Options.Del(dhcpv4.OptionDHCPMessageType)
		}
		if k == SdFull || k == SdBig {
			want := map[SrvDgKind]int{SdFull: 4096, SdBig: 1500}[k]
			for f := 0; f <= want && len(p.ToBytes()) < want; f++ {
				p.UpdateOption(dhcpv4.OptGeneric(dhcpv4.GenericOptionCode(225), bytes.Repeat([]byte{0x60 + byte(serial)}, f)))
			}
		}
		b := p.ToBytes()
		if k == SdOdd {
			b[2] = 200 // hardware address length beyond the 16-byte field
		}
		return b, from
	}
	if k == SdBare {
		r := &dhcpv6.RelayMessage{MessageType: dhcpv6.MessageTypeRelayForward, HopCount: 1, LinkAddr: net.ParseIP("2001:db8::1"), PeerAddr: net.ParseIP(fmt.Sprintf("fe80::%x", serial+1))}
		r.AddOption(dhcpv6.OptInterfaceID([]byte{byte(serial)}))
		r.AddOption(&dhcpv6.OptionGeneric{OptionCode: dhcpv6.OptionCode(serialOpt6), OptionData: tag})
		if serial%2 == 1 {
			outer := &dhcpv6.RelayMessage{MessageType: dhcpv6.MessageTypeRelayForward, HopCount: 2, LinkAddr: net.ParseIP("2001:db8::2"), PeerAddr: net.ParseIP("fe80::99")}
			outer.AddOption(dhcpv6.OptRelayMessage(r))
			return outer.ToBytes(), from
		}
		return r.ToBytes(), from
	}
	m := &dhcpv6.Message{MessageType: dhcpv6.MessageTypeSolicit, TransactionID: dhcpv6.TransactionID{9, 8, byte(serial)}}
	m.AddOption(dhcpv6.OptClientID(&dhcpv6.DUIDLL{HWType: 1, LinkLayerAddr: clientMAC}))
	m.AddOption(&dhcpv6.OptionGeneric{OptionCode: dhcpv6.OptionCode(serialOpt6), OptionData: tag})
	if k == SdOdd {
		m.MessageType = dhcpv6.MessageType(200)
	}
	if k == SdFull || k == SdBig {
		want := map[SrvDgKind]int{SdFull: 4096, SdBig: 1500}[k]
		m.AddOption(&dhcpv6.OptionGeneric{OptionCode: 65002, OptionData: bytes.Repeat([]byte{0x60 + byte(serial)}, want-len(m.ToBytes())-4)})
	}
	if k == SdValidB {
		m.MessageType = dhcpv6.MessageTypeRequest
		m.AddOption(&dhcpv6.OptRemoteID{EnterpriseNumber: 7, RemoteID: []byte(fmt.Sprintf("remote-%d", serial))})
		m.AddOption(dhcpv6.OptDomainSearchList(&rfc1035label.Labels{Labels: []string{fmt.Sprintf("d%d.example.org", serial)}}))
		// one option of every kind that keeps bytes of its own (an option decoder that stops copying shows when the
		// server reuses its read buffer): vendor sub-options, class data, a status message, a URL, identifiers, nested IA
		tagS := fmt.Sprintf("dg-%03d", serial)
		m.AddOption(&dhcpv6.OptVendorOpts{EnterpriseNumber: 4491, VendorOpts: dhcpv6.Options{&dhcpv6.OptionGeneric{OptionCode: 1, OptionData: []byte("vo-" + tagS)}}})
		m.AddOption(&dhcpv6.OptVendorClass{EnterpriseNumber: 9, Data: [][]byte{[]byte("vc-" + tagS)}})
		m.AddOption(&dhcpv6.OptUserClass{UserClasses: [][]byte{[]byte("uc-" + tagS)}})
		m.AddOption(&dhcpv6.OptStatusCode{StatusCode: 0, StatusMessage: "st-" + tagS})
		m.AddOption(dhcpv6.OptBootFileURL("tftp://h/" + tagS))
		m.AddOption(dhcpv6.OptServerID(&dhcpv6.DUIDEN{EnterpriseNumber: 7, EnterpriseIdentifier: []byte("id-" + tagS)}))
		m.AddOption(&dhcpv6.OptIANA{IaId: [4]byte{1, 2, 3, byte(serial)}, Options: dhcpv6.IdentityOptions{Options: dhcpv6.Options{
			&dhcpv6.OptIAAddress{IPv6Addr: net.ParseIP(fmt.Sprintf("2001:db8::%x", 0x100+serial)), Options: dhcpv6.AddressOptions{Options: dhcpv6.Options{&dhcpv6.OptStatusCode{StatusMessage: "ia-" + tagS}}}}}}})
		m.AddOption(&dhcpv6.OptNTPServer{Suboptions: dhcpv6.Options{&dhcpv6.NTPSuboptionSrvFQDN{Labels: rfc1035label.Labels{Labels: []string{tagS + ".ntp.example"}}}}})
		// addresses differ per datagram so that state shared between datagrams shows
		r0, _ := dhcpv6.EncapsulateRelay(m, dhcpv6.MessageTypeRelayForward, net.ParseIP(fmt.Sprintf("2001:db8:%x::1", serial+1)), net.ParseIP(fmt.Sprintf("fe80::%x:2", serial+1)))
		r := r0
		r.AddOption(dhcpv6.OptInterfaceID([]byte("if-" + tagS)))
		r2, _ := dhcpv6.EncapsulateRelay(r, dhcpv6.MessageTypeRelayForward, net.ParseIP(fmt.Sprintf("2001:db8:%x::2", serial+1)), net.ParseIP(fmt.Sprintf("fe80::%x:3", serial+1)))
		return r2.ToBytes(), from
	}
	return m.ToBytes(), from
}

func serialOf4(m *dhcpv4.DHCPv4) int {
	v := m.Options.Get(dhcpv4.GenericOptionCode(serialOpt4))
	if len(v) != 2 {
		return -1
	}
	return int(v[0])<<8 | int(v[1])
}

func serialOf6(d dhcpv6.DHCPv6) int {
	m, err := d.GetInnerMessage()
	if err != nil || m == nil {
		// a relay chain without an innermost message: the tag sits on the innermost relay header
		for r, ok := d.(*dhcpv6.RelayMessage); ok && r != nil; {
			if o := r.GetOneOption(dhcpv6.OptionCode(serialOpt6)); o != nil && len(o.ToBytes()) == 2 {
				return int(o.ToBytes()[0])<<8 | int(o.ToBytes()[1])
			}
			in := r.Options.RelayMessage()
			r, ok = in.(*dhcpv6.RelayMessage)
		}
		return -1
	}
	o := m.GetOneOption(dhcpv6.OptionCode(serialOpt6))
	if o == nil || len(o.ToBytes()) != 2 {
		return -1
	}
	return int(o.ToBytes()[0])<<8 | int(o.ToBytes()[1])
}

func (s *ServerScenario) body(out **srvRun) func() {
	return func() {
		h := &History{}
		run := &srvRun{h: h, expect: map[int][]byte{}, sender: map[int]net.Addr{}, raw: map[int][]byte{}}
		*out = run
		conn := NewConn(h)
		run.conn = conn
		var group []Datagram
		for i, k := range s.Dgs {
			if i == s.EndErrAt {
				d := Datagram{Serial: 100 + i, Err: errInjectedRead}
				if s.Spaced {
					conn.DeliverGroupAt(int64(i)*Tick, []Datagram{d})
				} else {
					group = append(group, d)
				}
			}
			data, from := srvDatagram(s.V6, k, i)
			run.raw[i] = data
			run.sender[i] = from
			if !s.V6 {
				if m, err := dhcpv4.FromBytes(append([]byte(nil), data...)); err == nil {
					run.expect[i] = m.ToBytes()
				}
			} else {
				if m, err := dhcpv6.FromBytes(append([]byte(nil), data...)); err == nil {
					run.expect[i] = m.ToBytes()
				}
			}
			d := Datagram{Serial: i, Data: data, From: from}
			if s.Spaced {
				conn.DeliverGroupAt(int64(i)*Tick, []Datagram{d})
			} else {
				group = append(group, d)
			}
		}
		if s.EndErrAt >= len(s.Dgs) {
			d := Datagram{Serial: 100 + s.EndErrAt, Err: errInjectedRead}
			if s.Spaced {
				conn.DeliverGroupAt(int64(len(s.Dgs))*Tick, []Datagram{d})
			} else {
				group = append(group, d)
			}
		}
		if len(group) > 0 {
			conn.DeliverGroupAt(0, group)
		}
		allRead := vs.MakeChan[struct{}](0)
		conn.OnReadErr = func() {
			if !allRead.IsClosed() {
				allRead.CloseNow()
			}
		}
		record := func(serial int, peer net.Addr, snap func() []byte, mutate func()) {
			inv := &srvInvocation{serial: serial, atStart: snap(), atEnd: snap}
			if peer != nil {
				inv.peer = peer.String()
				inv.peerObj = peer
			}
			inv.seq = h.add(Event{Kind: EvHandler, Dg: serial})
			run.inv = append(run.inv, inv)
			switch s.Handler {
			case 1:
				vs.Sleep(time.Duration(Tick))
			case 2:
				mutate()
				inv.mutated = true
				vs.Sleep(time.Duration(Tick))
			case 3:
				allRead.Recv()
			}
		}
		var serve func() error
		var closeFn func() error
		if !s.V6 {
			srv, err := server4.NewServer("", nil, func(c net.PacketConn, peer net.Addr, m *dhcpv4.DHCPv4) {
				record(serialOf4(m), peer, func() []byte { return m.ToBytes() }, func() {
					m.UpdateOption(dhcpv4.OptGeneric(dhcpv4.GenericOptionCode(225), []byte{0xee, byte(serialOf4(m))}))
				})
			}, srvOpts4(conn, s.Log, s.LogKind)...)
			if err != nil {
				panic(err)
			}
			serve, closeFn = srv.Serve, srv.Close
		} else {
			srv, err := server6.NewServer("", nil, func(c net.PacketConn, peer net.Addr, d dhcpv6.DHCPv6) {
				record(serialOf6(d), peer, func() []byte { return d.ToBytes() }, func() {
					d.AddOption(&dhcpv6.OptionGeneric{OptionCode: 65003, OptionData: []byte{0xee, byte(serialOf6(d))}})
				})
			}, srvOpts6(conn, s.Log, s.LogKind)...)
			if err != nil {
				panic(err)
			}
			serve, closeFn = srv.Serve, srv.Close
		}
		var wg vs.WaitGroup
		wg.Add(1)
		vs.GoNamed("serve", func() {
			defer wg.Done()
			err := serve()
			run.serveRet, run.returned = err, true
			h.add(Event{Kind: EvServeRet})
		})
		if s.CloseAt >= 0 {
			wg.Add(1)
			vs.GoNamed("closer", func() {
				defer wg.Done()
				if d := s.CloseAt*Tick - vs.NowTicks(); d > 0 {
					vs.Sleep(time.Duration(d))
				}
				h.add(Event{Kind: EvCloseCall})
				closeFn()
				h.add(Event{Kind: EvCloseRet})
			})
		}
		wg.Wait()
		// let handler threads finish (they sleep at most one tick)
		vs.Sleep(time.Duration(3 * Tick))
	}
}

func (s *ServerScenario) check(run *srvRun, ex *vs.Exec) (string, string) {
	h := run.h
	fail := func(rule, msg string) (string, string) {
		return fmt.Sprintf("%s: %s || scenario: %s || history: %s", rule, msg, s.String(), h.String()), "VIOLATION"
	}
	if len(ex.Panics) > 0 {
		return fail("panic", ex.Panics[0])
	}
	if ex.Horizon {
		return fail("livelock", "step horizon reached")
	}
	if len(ex.Races) > 0 {
		return fail("race", ex.Races[0])
	}
	terminated := s.EndErrAt >= 0 || s.CloseAt >= 0
	if ex.Deadlock {
		if !terminated && !run.returned {
			// Serve legitimately blocks forever in ReadFrom when nothing ends it: expected leftover is
			// exactly the serve thread (and main waiting for it)
			onlyServe := true
			for _, b := range ex.Blocked {
				if !strings.Contains(b, "(serve)") && !strings.Contains(b, "(main)") {
					onlyServe = false
				}
			}
			if !onlyServe {
				return fail("deadlock", strings.Join(ex.Blocked, "; "))
			}
		} else {
			return fail("deadlock", strings.Join(ex.Blocked, "; "))
		}
	}
	if terminated && !run.returned {
		return fail("serve-never-returned", "a read failed or Close was called but Serve did not return")
	}
	if !terminated && run.returned {
		return fail("serve-returned-early", fmt.Sprintf("Serve returned %v although no read failed and Close was not called", run.serveRet))
	}
	// (what Serve returns, and whether it closes the connection on the way out, is not part of the
	// property statement and is deliberately not asserted)
	// datagrams actually read
	read := map[int]bool{}
	for _, e := range h.Ev {
		if e.Kind == EvDeliver {
			read[e.Dg] = true
		}
	}
	count := map[int]int{}
	for _, inv := range run.inv {
		count[inv.serial]++
		if inv.serial < 0 || inv.serial >= len(s.Dgs) {
			return fail("handler-foreign-message", fmt.Sprintf("handler invoked with a message carrying serial %d", inv.serial))
		}
		exp, ok := run.expect[inv.serial]
		if !ok {
			return fail("handler-for-undecodable", fmt.Sprintf("handler invoked for datagram %d (%s) which does not decode", inv.serial, sdNames[s.Dgs[inv.serial]]))
		}
		if !read[inv.serial] {
			return fail("handler-before-read", fmt.Sprintf("handler invoked for datagram %d which was never read", inv.serial))
		}
		if !bytes.Equal(inv.atStart, exp) {
			return fail("message-mismatch", fmt.Sprintf("handler for datagram %d received a message that is not its decoding (%x vs %x)", inv.serial, short(inv.atStart), short(exp)))
		}
		end := inv.atEnd()
		if !inv.mutated && !bytes.Equal(end, exp) {
			return fail("message-changed-later", fmt.Sprintf("message of datagram %d changed after the handler received it", inv.serial))
		}
		if inv.mutated {
			// own mutation only: re-decode expected, apply the same mutation
			want := mutatedExpect(s.V6, run.raw[inv.serial], inv.serial)
			if !bytes.Equal(end, want) {
				return fail("message-not-independent", fmt.Sprintf("message of datagram %d is not independent of the other handlers' messages", inv.serial))
			}
		}
		// peer
		from := run.sender[inv.serial].(*net.UDPAddr)
		want := from.String()
		if !s.V6 && (len(from.IP) == 0 || from.IP.To4().Equal(net.IPv4zero)) { // no address at all, or the unspecified IPv4 address
			want = (&net.UDPAddr{IP: net.IPv4bcast, Port: from.Port}).String()
		}
		if inv.peer != want {
			return fail("peer", fmt.Sprintf("handler for datagram %d got peer %s, want %s", inv.serial, inv.peer, want))
		}
		if inv.peerObj != nil && inv.peerObj.String() != want {
			return fail("peer-changed-later", fmt.Sprintf("peer handed to the handler of datagram %d now reads %s, was %s", inv.serial, inv.peerObj.String(), want))
		}
	}
	var outc []string
	for i := range s.Dgs {
		_, dec := run.expect[i]
		if read[i] && dec && count[i] != 1 {
			return fail("dispatch-count", fmt.Sprintf("datagram %d (%s) was read and decodes but the handler ran %d times", i, sdNames[s.Dgs[i]], count[i]))
		}
		if count[i] > 1 {
			return fail("dispatch-count", fmt.Sprintf("handler ran %d times for datagram %d", count[i], i))
		}
		outc = append(outc, fmt.Sprintf("%d:%v/%d", i, read[i], count[i]))
	}
	// a read error ends the loop: nothing after it may have been read; everything before must have been
	if s.EndErrAt >= 0 && s.CloseAt < 0 {
		for i := range s.Dgs {
			if i < s.EndErrAt && !read[i] {
				return fail("lost-datagram", fmt.Sprintf("datagram %d precedes the read error but was never read", i))
			}
			if i >= s.EndErrAt && read[i] {
				return fail("read-after-error", fmt.Sprintf("datagram %d was read after the read error", i))
			}
		}
	}
	if !terminated {
		for i := range s.Dgs {
			if !read[i] {
				return fail("lost-datagram", fmt.Sprintf("datagram %d was never read although the server kept running", i))
			}
		}
	}
	sort.Strings(outc)
	return "", strings.Join(outc, ",")
}

func srvOpts4(conn net.PacketConn, lg bool, kind int) []server4.ServerOpt {
	o := []server4.ServerOpt{server4.WithConn(conn)}
	if lg {
		inner := server4.WithDebugLogger()
		if kind == 1 {
			inner = server4.WithSummaryLogger()
		}
		if kind == 2 {
			inner = server4.WithLogger(readLogger4{})
		}
		o = append(o, func(s *server4.Server) { quiet(func() { inner(s) }) })
	}
	return o
}

func srvOpts6(conn net.PacketConn, lg bool, kind int) []server6.ServerOpt {
	o := []server6.ServerOpt{server6.WithConn(conn)}
	if lg {
		inner := server6.WithDebugLogger()
		if kind == 1 {
			inner = server6.WithSummaryLogger()
		}
		if kind == 2 {
			inner = server6.WithLogger(readLogger6{})
		}
		o = append(o, func(s *server6.Server) { quiet(func() { inner(s) }) })
	}
	return o
}

func mutatedExpect(v6 bool, raw []byte, serial int) []byte {
	if !v6 {
		m, _ := dhcpv4.FromBytes(append([]byte(nil), raw...))
		m.UpdateOption(dhcpv4.OptGeneric(dhcpv4.GenericOptionCode(225), []byte{0xee, byte(serial)}))
		return m.ToBytes()
	}
	d, _ := dhcpv6.FromBytes(append([]byte(nil), raw...))
	d.AddOption(&dhcpv6.OptionGeneric{OptionCode: 65003, OptionData: []byte{0xee, byte(serial)}})
	return d.ToBytes()
}

func short(b []byte) []byte {
	if len(b) > 24 {
		return b[:24]
	}
	return b
}

type srvScen struct {
	s   *ServerScenario
	fam string
	run *srvRun
}

func (c *srvScen) ID() string       { return c.s.Name }
func (c *srvScen) Family() string   { return c.fam }
func (c *srvScen) Describe() string { return c.s.String() }
func (c *srvScen) MaxBound() int    { return c.s.Bound }
func (c *srvScen) Body() func() {
	b := c.s.body(&c.run)
	return func() { detCtr = 0; b() }
}
func (c *srvScen) Check(ex *vs.Exec) (string, string) { return c.s.check(c.run, ex) }

func c14Scenarios(tier string) []Scenario {
	var out []Scenario
	thorough := tier == "thorough"
	add := func(s *ServerScenario, fam string) {
		s.Name = fmt.Sprintf("c14-%05d", len(out))
		out = append(out, &srvScen{s: s, fam: fam + "-" + fam46(s.V6)})
	}
	maxLen := 3
	if thorough {
		maxLen = 4
	}
	kinds := []SrvDgKind{SdValidA, SdValidB, SdGarbage, SdEmpty, SdNoIP, SdZeroIP, SdOdd}
	var seqs [][]SrvDgKind
	seqs = append(seqs, nil)
	prev := [][]SrvDgKind{nil}
	for l := 1; l <= maxLen; l++ {
		var next [][]SrvDgKind
		for _, p := range prev {
			for _, k := range kinds {
				next = append(next, append(append([]SrvDgKind{}, p...), k))
			}
		}
		seqs = append(seqs, next...)
		prev = next
	}
	for _, v6 := range []bool{false, true} {
		for _, seq := range seqs {
			n := len(seq)
			if n >= 4 {
				// longest sequences: five representative kinds only
				skip := false
				for _, k := range seq {
					if k == SdEmpty || k == SdNoIP {
						skip = true
					}
				}
				if skip {
					continue
				}
			}
			bound := 2
			if n >= 3 {
				bound = 1
			}
			if thorough && n == 3 && len(kindsOf(seq)) <= 2 {
				bound = 2 // length-3 sequences over at most two distinct kinds also at bound 2
			}
			for h := 0; h < 3; h++ {
				if n >= 4 && h != 1 {
					continue // longest sequences: only the handler that outlives later reads
				}
				// read error at every position
				for e := 0; e <= n; e++ {
					if (h > 0 && e != n && !thorough) || (n >= 4 && e != 0 && e != n) {
						continue
					}
					add(&ServerScenario{V6: v6, Dgs: seq, EndErrAt: e, CloseAt: -1, Handler: h, Bound: bound}, "read-error")
				}
				// Close from another thread at tick 0 (racing the reads) and, spaced, at every position
				add(&ServerScenario{V6: v6, Dgs: seq, EndErrAt: -1, CloseAt: 0, Handler: h, Bound: bound}, "close-racing")
				if n <= 2 || (thorough && n <= 3) {
					for t := int64(0); t <= int64(n); t++ {
						add(&ServerScenario{V6: v6, Dgs: seq, Spaced: true, EndErrAt: -1, CloseAt: t, Handler: h, Bound: bound}, "close-at")
					}
				}
			}
			// the debug logger prints every message it handles: logging must not disturb dispatch
			if n >= 1 && n <= 2 {
				for lk := 0; lk < 3; lk++ {
					add(&ServerScenario{V6: v6, Dgs: seq, EndErrAt: n, CloseAt: -1, Handler: 1, Bound: 1, Log: true, LogKind: lk}, "logging")
				}
			}
			// nothing ends the server: it must keep serving
			if n > 0 && n <= 2 {
				add(&ServerScenario{V6: v6, Dgs: seq, EndErrAt: -1, CloseAt: -1, Handler: 1, Bound: bound}, "keeps-serving")
			}
		}
		// datagram sizes: a datagram that exactly fills the servers' 4096-byte read is still a datagram
		for _, seq := range [][]SrvDgKind{{SdFull}, {SdBig}, {SdFull, SdValidA}, {SdValidB, SdFull}, {SdBig, SdFull, SdBig},
			{SdBare}, {SdBare, SdBare}, {SdValidA, SdBare, SdValidB}, {SdBare, SdGarbage, SdBare}} {
			for h := 0; h < 3; h++ {
				add(&ServerScenario{V6: v6, Dgs: seq, EndErrAt: len(seq), CloseAt: -1, Handler: h, Bound: 1}, "datagram-sizes")
			}
		}
		// deterministic long sequences under the default schedule
		// (more datagrams than any plausible cap on handlers in flight: handler 3 keeps every handler alive until the
		// whole script has been read)
		longs := []int{50, 200, 300}
		if thorough {
			longs = append(longs, 1100)
		}
		for _, n := range longs {
			var seq []SrvDgKind
			for i := 0; i < n; i++ {
				seq = append(seq, kinds[(i*7+i/6)%len(kinds)])
			}
			for h := 0; h < 4; h++ {
				add(&ServerScenario{V6: v6, Dgs: seq, EndErrAt: n, CloseAt: -1, Handler: h, Bound: -1}, "long-sequence")
			}
			if n >= 300 {
				// every datagram decodes: n handlers are alive at once under handler 3
				var all []SrvDgKind
				for i := 0; i < n; i++ {
					all = append(all, []SrvDgKind{SdValidA, SdValidB, SdZeroIP}[i%3])
				}
				add(&ServerScenario{V6: v6, Dgs: all, EndErrAt: n, CloseAt: -1, Handler: 3, Bound: -1}, "long-sequence")
			}
		}
	}
	return out
}

func kindsOf(seq []SrvDgKind) map[SrvDgKind]bool {
	m := map[SrvDgKind]bool{}
	for _, k := range seq {
		m[k] = true
	}
	return m
}
