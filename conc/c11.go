package main

import "fmt"

// ---- C11: client calls always complete (timeout, cancellation, Close, cleanup) ----

func gridInstants(T int64, n int) []int64 {
	set := map[int64]bool{0: true, 1: true}
	for k := 1; k <= n; k++ {
		dl := T * ((int64(1) << uint(k)) - 1)
		for _, d := range []int64{dl - 1, dl, dl + 1} {
			if d >= 0 {
				set[d] = true
			}
		}
	}
	var out []int64
	for v := range set {
		out = append(out, v)
	}
	sortI64(out)
	return out
}

func sortI64(a []int64) {
	for i := 1; i < len(a); i++ {
		for j := i; j > 0 && a[j] < a[j-1]; j-- {
			a[j], a[j-1] = a[j-1], a[j]
		}
	}
}

type traffic struct {
	name string
	dgs  []DgSpec
}

func c11Traffic(T int64, n int, full bool) []traffic {
	budget := T * ((int64(1) << uint(n)) - 1)
	var out []traffic
	out = append(out, traffic{"silence", nil})
	// acceptable response at each instant of the grid (every instant when full)
	if full {
		for t := int64(0); t <= budget+1; t++ {
			out = append(out, traffic{fmt.Sprintf("good@%d", t), []DgSpec{{At: t, Kind: DgGood}}})
		}
	} else {
		for _, t := range gridInstants(T, n) {
			out = append(out, traffic{fmt.Sprintf("good@%d", t), []DgSpec{{At: t, Kind: DgGood}}})
		}
	}
	// endless same-id rejected datagrams every p ticks
	for _, p := range []int64{1, T - 1, T} {
		if p <= 0 {
			continue
		}
		var d []DgSpec
		for t := int64(0); t <= budget+1 && (full || len(d) < 4); t += p {
			d = append(d, DgSpec{At: t, Kind: DgBad})
		}
		out = append(out, traffic{fmt.Sprintf("bad-every-%d", p), d})
		// the same with an acceptable one at the end of the first try
		d2 := append(append([]DgSpec{}, d...), DgSpec{At: T - 1, Kind: DgGood})
		out = append(out, traffic{fmt.Sprintf("bad-every-%d+good", p), d2})
	}
	// burst filling the per-transaction buffer at one instant
	for _, at := range []int64{0, T - 1, T} {
		var d []DgSpec
		for i := 0; i < 3; i++ {
			d = append(d, DgSpec{At: at, Kind: DgBad})
		}
		out = append(out, traffic{fmt.Sprintf("burst@%d", at), d})
		out = append(out, traffic{fmt.Sprintf("burst@%d+good", at), append(append([]DgSpec{}, d...), DgSpec{At: at, Kind: DgGood})})
	}
	// junk that must not disturb
	out = append(out, traffic{"junk", []DgSpec{{At: 0, Kind: DgGarbage}, {At: 1, Kind: DgWrongHW}, {At: 1, Kind: DgRequestOp}, {At: T, Kind: DgBad, ID: 1}}})
	return out
}

func c11Scenarios(tier string) []Scenario {
	var out []Scenario
	thorough := tier == "thorough"
	add := func(s *ClientScenario, fam string) {
		sortDgs(s.Dgs)
		s.Bound = 2
		if thorough && len(s.Dgs) <= 1 {
			s.Bound = 3 // three preemptions where the traffic is at most one datagram (2e8 executions did not finish in 90 min with bound 3 everywhere)
		}
		if len(s.Dgs) >= 4 && !thorough {
			s.Bound--
		}
		if thorough && len(s.Dgs) >= 6 {
			s.Bound = 1 // a datagram at every tick of the whole budget: the two-preemption space of these alone took over an hour
		}
		if s.Tries >= 3 && !thorough && s.Bound > 1 {
			s.Bound = 1 // three tries: one preemption in the quick tier
		}
		s.Rules = "L"
		s.Name = fmt.Sprintf("c11-%05d", len(out))
		out = append(out, &clientScen{s: s, fam: fam + "-" + fam46(s.V6)})
	}
	type cfg struct {
		T int64
		n int
	}
	cfgs := []cfg{{2, 1}, {2, 2}, {3, 2}, {1, 3}}
	if thorough {
		cfgs = []cfg{{1, 1}, {2, 1}, {2, 2}, {2, 3}, {3, 1}, {3, 2}, {1, 3}}
	}
	for _, v6 := range []bool{false, true} {
		for _, cf := range cfgs {
			T, n := cf.T, cf.n
			grid := gridInstants(T, n)
			for _, tr := range c11Traffic(T, n, thorough) {
				base := func() *ClientScenario {
					return &ClientScenario{V6: v6, T: T, Tries: n, BufCap: 1, CloseAt: -1, Bound: 1,
						Calls: []CallSpec{{ID: 0, Match: MatchGood, CancelAt: -1, After: -1},
							{ID: 0, Match: MatchGood, CancelAt: -1, After: 0}}, // same id reused after the first call returned
						Dgs: append([]DgSpec{}, tr.dgs...)}
				}
				// no cancel, no close
				s := base()
				add(s, "traffic:"+trName(tr.name))
				// context cancelled at each grid instant
				for _, tc := range grid {
					for _, dl := range []bool{false, true} {
						s := base()
						s.Calls[0].CancelAt = tc
						s.Calls[0].Deadline = dl
						if dl {
							add(s, "ctx-deadline:"+trName(tr.name))
						} else {
							add(s, "cancel:"+trName(tr.name))
						}
					}
				}
				// Close at each grid instant by a separate thread
				for _, tc := range grid {
					s := base()
					s.Calls = s.Calls[:1]
					s.CloseAt = tc
					add(s, "close:"+trName(tr.name))
				}
				// second concurrent caller with another id and its own response
				s = base()
				s.Calls = append(s.Calls[:1], CallSpec{ID: 1, Match: MatchNil, CancelAt: -1, After: -1})
				s.Dgs = append(s.Dgs, DgSpec{At: 1, Kind: DgGood, ID: 1})
				add(s, "two-callers:"+trName(tr.name))
			}
			// cancel and close together at equal / adjacent instants, silence and one response
			for _, tc := range grid {
				for _, dc := range []int64{-1, 0, 1} {
					if tc+dc < 0 {
						continue
					}
					for _, withGood := range []bool{false, true} {
						s := &ClientScenario{V6: v6, T: T, Tries: n, BufCap: 1, CloseAt: tc + dc, Bound: 1,
							Calls: []CallSpec{{ID: 0, Match: MatchGood, CancelAt: tc, After: -1}}}
						if withGood {
							s.Dgs = []DgSpec{{At: tc, Kind: DgGood}}
						}
						add(s, "cancel+close")
					}
				}
			}
			// the connection's Close reports an error: the client must shut down all the same
			for _, tc := range grid {
				for _, withGood := range []bool{false, true} {
					s := &ClientScenario{V6: v6, T: T, Tries: n, BufCap: 1, CloseAt: tc, CloseErr: true, Bound: 1,
						Calls: []CallSpec{{ID: 0, Match: MatchGood, CancelAt: -1, After: -1}}}
					if withGood {
						s.Dgs = []DgSpec{{At: tc, Kind: DgBad}, {At: tc + 1, Kind: DgGood}}
					}
					add(s, "close-reports-error")
				}
			}
			// default buffer capacity and unbuffered
			for _, bc := range []int{-1, 0} {
				for _, tr := range c11Traffic(T, n, false) {
					s := &ClientScenario{V6: v6, T: T, Tries: n, BufCap: bc, CloseAt: -1, Bound: 1,
						Calls: []CallSpec{{ID: 0, Match: MatchGood, CancelAt: -1, After: -1}}, Dgs: append([]DgSpec{}, tr.dgs...)}
					add(s, fmt.Sprintf("bufcap%d", bc))
				}
			}
		}
	}
	// the boundary configuration: zero tries - the budget T x (2^0 - 1) is zero, the call fails at once with the
	// no-response error whatever arrives, and its id is free again
	for _, v6 := range []bool{false, true} {
		for _, T := range []int64{1, 2} {
			for _, dgs := range [][]DgSpec{nil, {{At: 0, Kind: DgGood}}, {{At: 1, Kind: DgGood}}, {{At: 0, Kind: DgBad}, {At: 1, Kind: DgGood}}} {
				for _, closeAt := range []int64{-1, 0, 1} {
					for _, cancelAt := range []int64{-1, 0} {
						add(&ClientScenario{V6: v6, T: T, Tries: 0, BufCap: 1, CloseAt: closeAt, Bound: 1, Horizon: 64 * T,
							Calls: []CallSpec{{ID: 0, Match: MatchGood, CancelAt: cancelAt, After: -1}, {ID: 0, Match: MatchGood, CancelAt: -1, After: 0}},
							Dgs:   append([]DgSpec{}, dgs...)}, "zero-tries")
					}
				}
			}
		}
	}
	return out
}

func trName(n string) string {
	for i := 0; i < len(n); i++ {
		if n[i] == '@' {
			return n[:i]
		}
	}
	return n
}

func sortDgs(d []DgSpec) {
	for i := 1; i < len(d); i++ {
		for j := i; j > 0 && d[j].At < d[j-1].At; j-- {
			d[j], d[j-1] = d[j-1], d[j]
		}
	}
}
