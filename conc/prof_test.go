package main

import (
	"os"
	"testing"
	"time"

	"github.com/insomniacslk/dhcp/verifshim/vs"
	"github.com/u-root/uio/rand"
)

func BenchmarkScenario(b *testing.B) {
	rand.Reader = detRand{}
	scs := scenariosFor(os.Getenv("P"), "quick")
	sc := scs[0]
	body := sc.Body()
	b.ResetTimer()
	for i := 0; i < b.N; i++ {
		ex := vs.RunOnce(vs.Config{MaxSteps: 50000, TrackStates: true}, nil, body)
		sc.Check(ex)
	}
	_ = time.Now
}
