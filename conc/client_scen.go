package main

import (
	"bytes"
	"context"
	"errors"
	"fmt"
	"net"
	"os"
	"strings"
	"time"

	"github.com/insomniacslk/dhcp/dhcpv4"
	"github.com/insomniacslk/dhcp/dhcpv4/nclient4"
	"github.com/insomniacslk/dhcp/dhcpv6"
	"github.com/insomniacslk/dhcp/dhcpv6/nclient6"
	"github.com/insomniacslk/dhcp/iana"
	"github.com/insomniacslk/dhcp/rfc1035label"
	"github.com/insomniacslk/dhcp/verifshim/vs"
)

// Tick is the virtual-time unit used by scenarios.
const Tick = int64(time.Millisecond)

// Tick2 is one tick as a duration.
const Tick2 = time.Millisecond

type MatchKind int

const (
	MatchNil     MatchKind = iota // nil matcher: first datagram with the id
	MatchGood                     // accepts datagrams flagged good
	MatchNone                     // rejects everything
	MatchLibGood                  // the library's IsMessageType(type of the good datagrams, shared...) - shared is one slice with
	// spare capacity that all calls of the execution pass as the variadic tail (it holds a type no datagram has)
	MatchLibBad // IsMessageType(type of the bad datagrams, shared...)
)

type DgKind int

const (
	DgGood      DgKind = iota // reply for id, flagged good
	DgBad                     // reply for id, flagged bad (non-matching for MatchGood)
	DgWrongHW                 // reply for id, other hardware address (v4) / relay-reply wrapper (v6)
	DgRequestOp               // BOOTREQUEST opcode (v4) / truncated header (v6)
	DgGarbage                 // undecodable
	DgDup                     // byte-for-byte copy of the previous datagram of the script
	DgOddOp                   // v4: opcode 3 (neither request nor reply); v6: as DgRequestOp
)

var dgNames = [...]string{"good", "bad", "wronghw", "reqop", "garbage", "dup", "oddop"}

type CallSpec struct {
	ID       int
	Match    MatchKind
	StartAt  int64 // ticks
	CancelAt int64 // ticks, -1 never
	Deadline bool  // the context ends by deadline (context.DeadlineExceeded) instead of cancellation
	After    int   // start only after call #After has returned (-1: none)
	Pkt      int   // request variant
	Dest     int   // 0 default server address, 1 explicit unicast, 2 link-local with a zone
}

type DgSpec struct {
	At   int64 // ticks
	Kind DgKind
	ID   int
	Size int // >0: the datagram is padded (with one filler option) to exactly this many bytes
}

type ClientScenario struct {
	Name       string
	V6         bool
	T          int64 // timeout in ticks
	Tries      int
	BufCap     int // -1 default
	Calls      []CallSpec
	Dgs        []DgSpec
	CloseAt    int64 // ticks; -1: harness closes after all calls returned
	Horizon    int64 // ticks; calls with Tries<0 are cancelled by the harness here (0 = none)
	FailWrites []int // indices of WriteTo calls that fail with an injected error
	FailKind   int   // 0: a plain error; 1: a timeout-typed *net.OpError wrapping os.ErrDeadlineExceeded (an expired write deadline)
	CloseErr   bool  // the connection's Close reports an error (and closes)
	Raw        bool  // DHCPv4 only: the client runs on nclient4.NewBroadcastUDPConn(<scripted conn>), the production stack (datagrams are IPv4/UDP frames)
	Twin       bool  // a second client on its own connection has a call in flight with the SAME transaction id as call 0 and gets its own reply (serial 99): clients share nothing
	Decoy      bool  // a second client with a different configuration is constructed (and closed) after the one under test
	Defaults   bool  // DHCPv4: no WithTimeout / WithRetry - nclient4.DefaultTimeout and nclient4.DefaultRetries apply
	HWOpt      bool  // DHCPv4: the client is constructed for another hardware address and told its own through WithHWAddr; DHCPv6: constructed on another connection and given its own through WithConn
	LogKind    int   // with Log: 0 the debug logger, 1 the summary logger, 2 a caller-supplied logger that prints every message (DHCPv4; DHCPv6 has none: summary)
	Log        bool  // the client is configured with its debug logger (output discarded) and, for DHCPv6, with WithLogDroppedPackets
	Bound      int
	Rules      string // which rule groups the oracle enforces: any of "ABCDE..." see oracle
}

func (s *ClientScenario) String() string {
	var b strings.Builder
	fam := "v4"
	if s.V6 {
		fam = "v6"
	}
	fk := ""
	if s.FailKind == 1 {
		fk = "(timeout-typed)"
	}
	fmt.Fprintf(&b, "%s %s T=%d n=%d cap=%d close=%d failwrites=%v%s calls=[", s.Name, fam, s.T, s.Tries, s.BufCap, s.CloseAt, s.FailWrites, fk)
	if s.CloseErr {
		b.WriteString("(conn.Close reports an error) ")
	}
	if s.Log {
		b.WriteString("(" + [...]string{"debug", "summary", "caller-supplied"}[s.LogKind] + " logger, dropped packets logged) ")
	}
	if s.Defaults {
		b.WriteString("(timeout and retry count left at the exported defaults) ")
	}
	if s.HWOpt {
		b.WriteString("(hardware address given by WithHWAddr / connection given by WithConn) ")
	}
	if s.Raw {
		b.WriteString("(over the raw broadcast connection) ")
	}
	if s.Decoy {
		b.WriteString("(another client with another configuration constructed afterwards) ")
	}
	if s.Twin {
		b.WriteString("(a second client with its own connection has a call with call 0's transaction id in flight) ")
	}
	for _, c := range s.Calls {
		fmt.Fprintf(&b, "{id%d m%d start%d cancel%d dl%v after%d}", c.ID, c.Match, c.StartAt, c.CancelAt, c.Deadline, c.After)
	}
	b.WriteString("] dgs=[")
	for _, d := range s.Dgs {
		fmt.Fprintf(&b, "{t%d %s id%d}", d.At, dgNames[d.Kind], d.ID)
	}
	b.WriteString("]")
	return b.String()
}

var devNull, _ = os.OpenFile(os.DevNull, os.O_WRONLY, 0)

// The library's debug loggers capture os.Stderr at the moment the option is applied (inside the
// constructor), so the option is wrapped and os.Stderr swapped for the duration of that call only.
func quiet(f func()) {
	old := os.Stderr
	if devNull != nil {
		os.Stderr = devNull
	}
	defer func() { os.Stderr = old }()
	f()
}

// readLogger4/readLogger6: caller-supplied loggers that render everything they are given (and throw it away)
type readLogger4 struct{}

func (readLogger4) PrintMessage(prefix string, m *dhcpv4.DHCPv4) {
	_ = prefix + m.Summary() + m.String()
}
func (readLogger4) Printf(format string, v ...interface{}) { _ = fmt.Sprintf(format, v...) }

type readLogger6 struct{}

func (readLogger6) PrintMessage(prefix string, m *dhcpv6.Message) {
	_ = prefix + m.Summary() + m.String()
}
func (readLogger6) Printf(format string, v ...interface{}) { _ = fmt.Sprintf(format, v...) }

func quiet4(o nclient4.ClientOpt) nclient4.ClientOpt {
	return func(c *nclient4.Client) (err error) { quiet(func() { err = o(c) }); return }
}

func quiet6(o nclient6.ClientOpt) nclient6.ClientOpt {
	return func(c *nclient6.Client) { quiet(func() { o(c) }) }
}

var clientMAC = net.HardwareAddr{0x02, 0x00, 0x5e, 0x10, 0x00, 0x01}
var otherMAC = net.HardwareAddr{0x02, 0x00, 0x5e, 0x10, 0x00, 0x99}
var serverAddr = &net.UDPAddr{IP: net.IPv4(10, 0, 0, 1), Port: 67}
var otherDest = &net.UDPAddr{IP: net.IPv4(10, 9, 9, 9), Port: 6767}
var serverAddr6 = &net.UDPAddr{IP: net.ParseIP("fe80::1"), Port: 547}
var otherDest6 = &net.UDPAddr{IP: net.ParseIP("2001:db8::99"), Port: 5547}
var zonedDest6 = &net.UDPAddr{IP: net.ParseIP("fe80::99"), Port: 547, Zone: "eth7"}
var zonedDest4 = &net.UDPAddr{IP: net.IPv4(169, 254, 0, 9), Port: 67, Zone: "eth7"}

// udpFrame wraps a DHCPv4 payload into the IPv4/UDP frame a raw socket would deliver: 10.0.0.1:67 -> 255.255.255.255:68.
func udpFrame(payload []byte) []byte {
	n := 28 + len(payload)
	f := make([]byte, n)
	f[0] = 0x45
	f[2], f[3] = byte(n>>8), byte(n)
	f[8], f[9] = 64, 17
	copy(f[12:16], []byte{10, 0, 0, 1})
	copy(f[16:20], []byte{255, 255, 255, 255})
	sum := uint32(0)
	for i := 0; i < 20; i += 2 {
		sum += uint32(f[i])<<8 | uint32(f[i+1])
	}
	for sum>>16 != 0 {
		sum = sum&0xffff + sum>>16
	}
	f[10], f[11] = byte(^sum>>8), byte(^sum)
	f[20], f[21] = 0, 67
	f[22], f[23] = 0, 68
	ul := 8 + len(payload)
	f[24], f[25] = byte(ul>>8), byte(ul)
	copy(f[28:], payload)
	return f
}

func xid4(id int) dhcpv4.TransactionID {
	return dhcpv4.TransactionID{0xa0 + byte(id), 0x11, 0x22, 0x33}
}
func xid6(id int) dhcpv6.TransactionID { return dhcpv6.TransactionID{0xb0 + byte(id), 0x44, 0x55} }

const serialOpt4 = 224
const serialOpt6 = 65001

// buildDg builds the wire bytes of scripted datagram number serial.
func buildDg(v6 bool, d DgSpec, serial int) []byte {
	flag := byte(0)
	if d.Kind == DgGood {
		flag = 1
	}
	tag := []byte{byte(serial), flag}
	if d.Kind == DgGarbage {
		return []byte{0xde, 0xad, byte(serial)}
	}
	if !v6 {
		mac := clientMAC
		if d.Kind == DgWrongHW {
			mac = otherMAC
		}
		p, _ := dhcpv4.New(dhcpv4.WithTransactionID(xid4(d.ID)), dhcpv4.WithHwAddr(mac),
			dhcpv4.WithMessageType(dhcpv4.MessageTypeOffer), dhcpv4.WithGeneric(dhcpv4.GenericOptionCode(serialOpt4), tag),
			dhcpv4.WithYourIP(net.IPv4(10, 0, 0, 100+byte(serial))),
			dhcpv4.WithGeneric(dhcpv4.OptionVendorSpecificInformation, bytes.Repeat([]byte{0x40 + byte(serial)}, 40)),
			dhcpv4.WithGeneric(dhcpv4.OptionDomainName, []byte(fmt.Sprintf("dg%d.example.org", serial))))
		p.OpCode = dhcpv4.OpcodeBootReply
		if d.Kind == DgBad {
			p.UpdateOption(dhcpv4.OptMessageType(dhcpv4.MessageTypeAck))
		}
		if d.Kind == DgWrongHW {
			// "another hardware address" comes in three forms: a different one, none at all (hlen 0), a proper prefix of the client's
			switch serial % 3 {
			case 1:
				p.ClientHWAddr = net.HardwareAddr{}
			case 2:
				p.ClientHWAddr = append(net.HardwareAddr{}, clientMAC[:3]...)
			}
		}
		if d.Kind == DgRequestOp {
			p.OpCode = dhcpv4.OpcodeBootRequest
		}
		if d.Kind == DgOddOp {
			p.OpCode = 3
		}
		if d.Size > 0 {
			// filler option 225; values above 255 bytes are split by the encoder (2 header bytes per 255)
			for f := 0; f <= d.Size; f++ {
				p.UpdateOption(dhcpv4.OptGeneric(dhcpv4.GenericOptionCode(225), bytes.Repeat([]byte{0x30 + byte(serial)}, f)))
				if len(p.ToBytes()) >= d.Size {
					break
				}
			}
		}
		return p.ToBytes()
	}
	m := &dhcpv6.Message{MessageType: dhcpv6.MessageTypeReply, TransactionID: xid6(d.ID)}
	if d.Kind == DgBad {
		m.MessageType = dhcpv6.MessageTypeAdvertise
	}
	m.AddOption(&dhcpv6.OptionGeneric{OptionCode: dhcpv6.OptionCode(serialOpt6), OptionData: tag})
	// payload-carrying options of several kinds, distinct per datagram, so that a message that shares
	// memory with the receive path (or with another datagram) shows
	pay := bytes.Repeat([]byte{0x40 + byte(serial)}, 24)
	m.AddOption(&dhcpv6.OptVendorOpts{EnterpriseNumber: 4242, VendorOpts: dhcpv6.Options{&dhcpv6.OptionGeneric{OptionCode: 1, OptionData: pay}}})
	m.AddOption(dhcpv6.OptServerID(&dhcpv6.DUIDEN{EnterpriseNumber: 9, EnterpriseIdentifier: pay[:10]}))
	m.AddOption(&dhcpv6.OptRemoteID{EnterpriseNumber: 7, RemoteID: pay[:12]})
	m.AddOption(dhcpv6.OptBootFileURL(fmt.Sprintf("tftp://dg%d/boot", serial)))
	switch d.Kind {
	case DgWrongHW:
		// a relay message is not a client message: must be dropped
		r, _ := dhcpv6.EncapsulateRelay(m, dhcpv6.MessageTypeRelayReply, net.ParseIP("2001:db8::1"), net.ParseIP("fe80::2"))
		return r.ToBytes()
	case DgRequestOp, DgOddOp:
		return m.ToBytes()[:3] // truncated header
	}
	if n := len(m.ToBytes()); d.Size >= n+4 {
		m.AddOption(&dhcpv6.OptionGeneric{OptionCode: 65002, OptionData: bytes.Repeat([]byte{0x30 + byte(serial)}, d.Size-n-4)})
	}
	return m.ToBytes()
}

// base resolves duplicates: the index of the datagram whose bytes datagram i carries.
func (s *ClientScenario) base(i int) int {
	for i > 0 && s.Dgs[i].Kind == DgDup {
		i--
	}
	return i
}

// qualifies: the datagram decodes, carries id, and (v4) is a BOOTREPLY for the client's MAC.
func (d DgSpec) qualifies(id int) bool {
	return (d.Kind == DgGood || d.Kind == DgBad) && d.ID == id
}

func (d DgSpec) accepts(c CallSpec) bool {
	if !d.qualifies(c.ID) {
		return false
	}
	switch c.Match {
	case MatchNil:
		return true
	case MatchGood, MatchLibGood:
		return d.Kind == DgGood
	case MatchLibBad:
		return d.Kind == DgBad
	}
	return false
}

func errClass(err error) string {
	if err == nil {
		return ""
	}
	var inuse *nclient4.ErrTransactionIDInUse
	switch {
	case errors.Is(err, nclient4.ErrNoResponse), errors.Is(err, nclient6.ErrNoResponse):
		return "noresp"
	case errors.Is(err, context.Canceled), errors.Is(err, context.DeadlineExceeded):
		return "ctx"
	case errors.As(err, &inuse), strings.Contains(err.Error(), "already in use"):
		return "inuse"
	case strings.Contains(err.Error(), "error writing packet"):
		return "write"
	}
	return "other:" + err.Error()
}

// run state of one execution (rebuilt by the body on every execution)
type clientRun struct {
	h            *History
	reqAfter     [][]byte // encoding of each call's request object once the call has returned
	reqs         [][]byte // encoding of each call's request
	dests        []string
	thOf         []int           // thread id of each call
	respAtReturn [][]byte        // encoding of the returned response when the call returned
	respNow      []func() []byte // re-encodes the returned response object later
	twinResp     int             // serial returned to the second client's call (-1 none)
	twinErr      string
	twinRan      bool
}

// body returns the function executed as thread 0 of every execution of scenario s.
func (s *ClientScenario) body(out **clientRun) func() {
	return func() {
		h := &History{}
		run := &clientRun{h: h, reqs: make([][]byte, len(s.Calls)), reqAfter: make([][]byte, len(s.Calls)), dests: make([]string, len(s.Calls)), thOf: make([]int, len(s.Calls)),
			respAtReturn: make([][]byte, len(s.Calls)), respNow: make([]func() []byte, len(s.Calls))}
		*out = run
		conn := NewConn(h)
		if s.CloseErr {
			conn.CloseErr = errInjectedClose
		}
		if len(s.FailWrites) > 0 {
			conn.FailWrite = map[int]bool{}
			if s.FailKind == 1 {
				conn.FailWriteErr = errInjectedWriteTimeout
			}
			for _, k := range s.FailWrites {
				conn.FailWrite[k] = true
			}
		}
		T := time.Duration(s.T * Tick)
		// one slice with spare capacity, handed to every IsMessageType call of this execution
		shared4 := append(make([]dhcpv4.MessageType, 0, 4), dhcpv4.MessageTypeNak)
		shared6 := append(make([]dhcpv6.MessageType, 0, 4), dhcpv6.MessageTypeReconfigure)
		var send func(ctx context.Context, c CallSpec, idx int) (int, error)
		var closeFn func() error
		var twin func()
		if !s.V6 {
			opts4 := []nclient4.ClientOpt{nclient4.WithTimeout(T), nclient4.WithRetry(s.Tries), nclient4.WithServerAddr(serverAddr)}
			if s.Defaults {
				// neither timeout nor retry count configured: the exported defaults apply (the scenario's T and Tries are set from them)
				opts4 = opts4[2:]
			}
			if s.Log {
				switch s.LogKind {
				case 1:
					opts4 = append(opts4, quiet4(nclient4.WithSummaryLogger()))
				case 2:
					opts4 = append(opts4, nclient4.WithLogger(readLogger4{}))
				default:
					opts4 = append(opts4, quiet4(nclient4.WithDebugLogger()))
				}
			}
			var pc net.PacketConn = conn
			if s.Raw {
				pc = nclient4.NewBroadcastUDPConn(conn, &net.UDPAddr{Port: 68})
			}
			ctorMAC := clientMAC
			if s.HWOpt {
				ctorMAC = otherMAC
				opts4 = append(opts4, nclient4.WithHWAddr(append(net.HardwareAddr{}, clientMAC...)))
			}
			cl, err := nclient4.NewWithConn(pc, ctorMAC, opts4...)
			if err != nil {
				panic(err)
			}
			if s.BufCap >= 0 {
				nclient4.VerifSetBufferCap(cl, s.BufCap)
			}
			closeFn = cl.Close
			if s.Twin {
				twin = func() {
					conn2 := NewConn(&History{})
					other, err := nclient4.NewWithConn(conn2, clientMAC, nclient4.WithTimeout(T), nclient4.WithRetry(s.Tries), nclient4.WithServerAddr(serverAddr))
					if err != nil {
						panic(err)
					}
					conn2.DeliverAt(1*Tick, Datagram{Serial: 99, Data: buildDg(false, DgSpec{Kind: DgGood, ID: s.Calls[0].ID}, 99), From: serverAddr})
					p, _ := dhcpv4.New(dhcpv4.WithTransactionID(xid4(s.Calls[0].ID)), dhcpv4.WithHwAddr(clientMAC), dhcpv4.WithMessageType(dhcpv4.MessageTypeDiscover))
					r, err := other.SendAndRead(context.Background(), serverAddr, p, nil)
					run.twinResp, run.twinErr, run.twinRan = -1, errClass(err), true
					if r != nil {
						if v := r.Options.Get(dhcpv4.GenericOptionCode(serialOpt4)); len(v) == 2 {
							run.twinResp = int(v[0])
						}
					}
					other.Close()
				}
			}
			if s.Decoy {
				other, err := nclient4.NewWithConn(NewConn(&History{}), otherMAC, nclient4.WithTimeout(7*T+Tick2), nclient4.WithRetry(s.Tries+2))
				if err != nil {
					panic(err)
				}
				other.Close()
			}
			send = func(ctx context.Context, c CallSpec, idx int) (int, error) {
				p, _ := dhcpv4.New(dhcpv4.WithTransactionID(xid4(c.ID)), dhcpv4.WithHwAddr(clientMAC), dhcpv4.WithMessageType(dhcpv4.MessageTypeDiscover))
				if c.Pkt > 0 {
					p.UpdateOption(dhcpv4.OptHostName(strings.Repeat("h", c.Pkt*70)))
				}
				if c.Pkt == 3 {
					// a request whose option values are not in any canonical order (printing it must not tidy it up)
					p.UpdateOption(dhcpv4.OptParameterRequestList(dhcpv4.OptionRouter, dhcpv4.OptionBootfileName, dhcpv4.OptionSubnetMask, dhcpv4.OptionDomainNameServer, dhcpv4.OptionRouter))
					p.UpdateOption(dhcpv4.OptClientArch(iana.EFI_X86_64, iana.INTEL_X86PC, iana.EFI_BC))
					p.UpdateOption(dhcpv4.OptUserClass("zeta"))
					p.UpdateOption(dhcpv4.OptRelayAgentInfo(dhcpv4.OptGeneric(dhcpv4.GenericOptionCode(9), []byte("z")), dhcpv4.OptGeneric(dhcpv4.GenericOptionCode(1), []byte("a"))))
					p.UpdateOption(dhcpv4.OptDomainSearch(&rfc1035label.Labels{Labels: []string{"Zulu.Example.ORG", "alpha.example.org"}}))
					p.UpdateOption(dhcpv4.OptGeneric(dhcpv4.GenericOptionCode(231), bytes.Repeat([]byte{0xff, 0x00, 0x7f}, 100)))
				}
				run.reqs[idx] = p.ToBytes()
				dest := serverAddr
				if c.Dest == 1 {
					dest = otherDest
				} else if c.Dest == 2 {
					dest = zonedDest4
				}
				run.dests[idx] = dest.String()
				var m nclient4.Matcher
				switch c.Match {
				case MatchGood:
					m = func(r *dhcpv4.DHCPv4) bool {
						v := r.Options.Get(dhcpv4.GenericOptionCode(serialOpt4))
						return len(v) == 2 && v[1] == 1
					}
				case MatchNone:
					m = func(r *dhcpv4.DHCPv4) bool { return false }
				case MatchLibGood:
					m = nclient4.IsMessageType(dhcpv4.MessageTypeOffer, shared4...)
				case MatchLibBad:
					m = nclient4.IsMessageType(dhcpv4.MessageTypeAck, shared4...)
				}
				r, err := cl.SendAndRead(ctx, dest, p, m)
				if err != nil {
					_ = err.Error() // rendering the error is part of using it
				}
				run.reqAfter[idx] = p.ToBytes()
				if r == nil {
					return -1, err
				}
				run.respAtReturn[idx], run.respNow[idx] = r.ToBytes(), r.ToBytes
				v := r.Options.Get(dhcpv4.GenericOptionCode(serialOpt4))
				if len(v) != 2 {
					return -2, err
				}
				return int(v[0]), err
			}
		} else {
			opts6 := []nclient6.ClientOpt{nclient6.WithTimeout(T), nclient6.WithRetry(s.Tries), nclient6.WithBroadcastAddr(serverAddr6)}
			if s.Log {
				if s.LogKind == 0 {
					opts6 = append(opts6, nclient6.WithLogDroppedPackets(), quiet6(nclient6.WithDebugLogger()))
				} else {
					opts6 = append(opts6, nclient6.WithLogDroppedPackets(), quiet6(nclient6.WithSummaryLogger()))
				}
			}
			var ctorConn net.PacketConn = conn
			if s.HWOpt {
				// DHCPv6: the connection the client uses comes from WithConn, not from the constructor
				ctorConn = NewConn(&History{})
				opts6 = append(opts6, nclient6.WithConn(conn))
			}
			cl, err := nclient6.NewWithConn(ctorConn, clientMAC, opts6...)
			if err != nil {
				panic(err)
			}
			if s.BufCap >= 0 {
				nclient6.VerifSetBufferCap(cl, s.BufCap)
			}
			closeFn = cl.Close
			if s.Twin {
				twin = func() {
					conn2 := NewConn(&History{})
					other, err := nclient6.NewWithConn(conn2, clientMAC, nclient6.WithTimeout(T), nclient6.WithRetry(s.Tries), nclient6.WithBroadcastAddr(serverAddr6))
					if err != nil {
						panic(err)
					}
					conn2.DeliverAt(1*Tick, Datagram{Serial: 99, Data: buildDg(true, DgSpec{Kind: DgGood, ID: s.Calls[0].ID}, 99), From: serverAddr})
					p := &dhcpv6.Message{MessageType: dhcpv6.MessageTypeSolicit, TransactionID: xid6(s.Calls[0].ID)}
					r, err := other.SendAndRead(context.Background(), serverAddr6, p, nil)
					run.twinResp, run.twinErr, run.twinRan = -1, errClass(err), true
					if r != nil {
						if o := r.GetOneOption(dhcpv6.OptionCode(serialOpt6)); o != nil && len(o.ToBytes()) == 2 {
							run.twinResp = int(o.ToBytes()[0])
						}
					}
					other.Close()
				}
			}
			if s.Decoy {
				other, err := nclient6.NewWithConn(NewConn(&History{}), otherMAC, nclient6.WithTimeout(7*T+Tick2), nclient6.WithRetry(s.Tries+2))
				if err != nil {
					panic(err)
				}
				other.Close()
			}
			send = func(ctx context.Context, c CallSpec, idx int) (int, error) {
				p := &dhcpv6.Message{MessageType: dhcpv6.MessageTypeSolicit, TransactionID: xid6(c.ID)}
				p.AddOption(dhcpv6.OptClientID(&dhcpv6.DUIDLL{HWType: 1, LinkLayerAddr: clientMAC}))
				if c.Pkt > 0 {
					p.AddOption(&dhcpv6.OptionGeneric{OptionCode: 65002, OptionData: bytes.Repeat([]byte{7}, c.Pkt*70)})
				}
				if c.Pkt == 3 {
					// a request whose option values are not in any canonical order (printing it must not tidy it up)
					p.AddOption(dhcpv6.OptRequestedOption(dhcpv6.OptionBootfileURL, dhcpv6.OptionSIPServersDomainNameList, dhcpv6.OptionDNSRecursiveNameServer, dhcpv6.OptionBootfileURL))
					p.AddOption(dhcpv6.OptClientArchType(iana.EFI_X86_64, iana.INTEL_X86PC))
					p.AddOption(&dhcpv6.OptUserClass{UserClasses: [][]byte{[]byte("zeta"), []byte("alpha")}})
					p.AddOption(&dhcpv6.OptIANA{IaId: [4]byte{9, 9, 9, 9}, T1: 7 * time.Second, T2: 3 * time.Second, Options: dhcpv6.IdentityOptions{Options: dhcpv6.Options{
						&dhcpv6.OptIAAddress{IPv6Addr: net.ParseIP("2001:db8::ff"), PreferredLifetime: 9 * time.Second, ValidLifetime: 5 * time.Second},
						&dhcpv6.OptIAAddress{IPv6Addr: net.ParseIP("2001:db8::1"), PreferredLifetime: 1 * time.Second, ValidLifetime: 2 * time.Second}}}})
					p.AddOption(dhcpv6.OptElapsedTime(655350 * time.Millisecond))
					p.AddOption(&dhcpv6.OptFQDN{Flags: 1, DomainName: &rfc1035label.Labels{Labels: []string{"Zulu.Example.ORG"}}})
				}
				run.reqs[idx] = p.ToBytes()
				dest := serverAddr6
				if c.Dest == 1 {
					dest = otherDest6
				} else if c.Dest == 2 {
					dest = zonedDest6
				}
				run.dests[idx] = dest.String()
				var m nclient6.Matcher
				switch c.Match {
				case MatchGood:
					m = func(r *dhcpv6.Message) bool {
						o := r.GetOneOption(dhcpv6.OptionCode(serialOpt6))
						return o != nil && len(o.ToBytes()) == 2 && o.ToBytes()[1] == 1
					}
				case MatchNone:
					m = func(r *dhcpv6.Message) bool { return false }
				case MatchLibGood:
					m = nclient6.IsMessageType(dhcpv6.MessageTypeReply, shared6...)
				case MatchLibBad:
					m = nclient6.IsMessageType(dhcpv6.MessageTypeAdvertise, shared6...)
				}
				r, err := cl.SendAndRead(ctx, dest, p, m)
				if err != nil {
					_ = err.Error() // rendering the error is part of using it
				}
				run.reqAfter[idx] = p.ToBytes()
				if r == nil {
					return -1, err
				}
				run.respAtReturn[idx], run.respNow[idx] = r.ToBytes(), r.ToBytes
				o := r.GetOneOption(dhcpv6.OptionCode(serialOpt6))
				if o == nil || len(o.ToBytes()) != 2 {
					return -2, err
				}
				return int(o.ToBytes()[0]), err
			}
		}
		// datagrams scripted for the same instant arrive in script order (a socket queue is
		// FIFO); their order relative to timers / cancellation at that instant stays a choice
		for i := 0; i < len(s.Dgs); {
			j := i
			var group []Datagram
			for j < len(s.Dgs) && s.Dgs[j].At == s.Dgs[i].At {
				b := s.base(j)
				data := buildDg(s.V6, s.Dgs[b], b)
				if s.Raw && !s.V6 {
					data = udpFrame(data)
				}
				group = append(group, Datagram{Serial: b, Data: data, From: serverAddr})
				j++
			}
			conn.DeliverGroupAt(s.Dgs[i].At*Tick, group)
			i = j
		}
		var wg vs.WaitGroup
		returned := make([]*vs.Chan[struct{}], len(s.Calls))
		for i := range s.Calls {
			returned[i] = vs.MakeChan[struct{}](0)
		}
		for i, c := range s.Calls {
			i, c := i, c
			wg.Add(1)
			vs.GoNamed(fmt.Sprintf("call%d", i), func() {
				defer wg.Done()
				run.thOf[i] = vs.ThreadID()
				if c.After >= 0 {
					returned[c.After].Recv()
				}
				if d := c.StartAt*Tick - vs.NowTicks(); d > 0 {
					vs.Sleep(time.Duration(d))
				}
				var ctx context.Context = context.Background()
				if c.CancelAt >= 0 || (s.Tries < 0 && s.Horizon > 0) {
					at := c.CancelAt
					if at < 0 {
						at = s.Horizon
					}
					cx, _ := vs.WithCancel(context.Background())
					vs.At(at*Tick, "cancel", func() {
						h.add(Event{Kind: EvCancel, Call: i})
						if c.Deadline {
							cx.ExpireByClock()
						} else {
							cx.CancelByClock()
						}
					})
					ctx = cx
				}
				h.add(Event{Kind: EvInvoke, Call: i, Th: vs.ThreadID()})
				resp, err := send(ctx, c, i)
				h.add(Event{Kind: EvReturn, Call: i, Resp: resp, Err: errClass(err), Th: vs.ThreadID()})
				returned[i].Close()
			})
		}
		if twin != nil {
			wg.Add(1)
			vs.GoNamed("twin-client", func() {
				defer wg.Done()
				twin()
			})
		}
		if s.CloseAt >= 0 {
			wg.Add(1)
			vs.GoNamed("closer", func() {
				defer wg.Done()
				if d := s.CloseAt*Tick - vs.NowTicks(); d > 0 {
					vs.Sleep(time.Duration(d))
				}
				h.add(Event{Kind: EvCloseCall})
				closeFn()
				h.add(Event{Kind: EvCloseRet})
			})
		}
		wg.Wait()
		// the client is closed at the end of every execution; where a Close already happened this is the second one,
		// which must return quietly (Close guards against closing twice)
		note := "final"
		if s.CloseAt >= 0 {
			note = "second"
		}
		h.add(Event{Kind: EvCloseCall, Note: note})
		closeFn()
		h.add(Event{Kind: EvCloseRet, Note: note})
	}
}

// ---- oracle (Appendix A of DESIGN.md) ----

type callView struct {
	inv, ret *Event
	tx       []*Event
}

// checkClient applies the rule groups selected by s.Rules:
//
//	"R" routing/identity (C10): R1 validity, R2 exclusivity, R3 first-in-arrival-order, in-use rule, nil/nil, panics, races
//	"L" liveness/instants (C11): R5 budget, cancel/close/arrival instants, reuse, shutdown, leaks, deadlock
//	"S" schedule (C12): transmission instants, count, bytes, destination, failure instant
func (s *ClientScenario) checkClient(run *clientRun, ex *vs.Exec) (violation, outcome string) {
	rules := s.Rules
	has := func(r string) bool { return strings.Contains(rules, r) }
	h := run.h
	fail := func(rule, msg string) (string, string) {
		return fmt.Sprintf("%s: %s || scenario: %s || history: %s", rule, msg, s.String(), h.String()), "VIOLATION"
	}
	if len(ex.Panics) > 0 {
		return fail("panic", ex.Panics[0])
	}
	if ex.Horizon {
		return fail("L-livelock", "step horizon reached (livelock suspect)")
	}
	if s.Twin && run.twinRan && (run.twinErr != "" || run.twinResp != 99) {
		return fail("R1-other-client", fmt.Sprintf("the call of the second client (own connection, same transaction id) returned serial %d err %q; its own connection delivered datagram 99 at t=1", run.twinResp, run.twinErr))
	}
	if has("R") && len(ex.Races) > 0 {
		return fail("R8-race", ex.Races[0])
	}
	calls := make([]callView, len(s.Calls))
	var closeCall, closeRet *Event
	deliver := map[int]*Event{}      // last delivery of each datagram (by serial)
	deliverAll := map[int][]*Event{} // every delivery (duplicates share a serial)
	cancelT := map[int]*Event{}
	for i := range h.Ev {
		e := &h.Ev[i]
		switch e.Kind {
		case EvInvoke:
			calls[e.Call].inv = e
		case EvReturn:
			calls[e.Call].ret = e
		case EvTX:
			for ci := range s.Calls {
				if run.thOf[ci] == e.Th {
					calls[ci].tx = append(calls[ci].tx, e)
				}
			}
		case EvDeliver:
			deliver[e.Dg] = e
			deliverAll[e.Dg] = append(deliverAll[e.Dg], e)
		case EvCancel:
			cancelT[e.Call] = e
		case EvCloseCall:
			if closeCall == nil {
				closeCall = e
			}
		case EvCloseRet:
			if closeRet == nil {
				closeRet = e
			}
		}
	}
	if has("L") {
		if ex.Deadlock {
			kind := "L7-deadlock"
			if len(ex.LeakedTh) > 0 && len(ex.Blocked) == len(ex.LeakedTh) {
				kind = "L7-goroutine-left-behind"
			}
			return fail(kind, strings.Join(ex.Blocked, "; "))
		}
		if closeCall != nil && closeRet == nil {
			return fail("L7-close-never-returned", "Close did not return")
		}
	} else if ex.Deadlock {
		// still a failed execution: without liveness rules selected, report as liveness of the property at hand
		return fail("deadlock", strings.Join(ex.Blocked, "; "))
	}
	T := s.T * Tick
	var out []string
	returnedBy := map[int]int{}
	for ci, cv := range calls {
		spec := s.Calls[ci]
		if cv.inv == nil {
			continue // never started (its predecessor never returned); reported elsewhere
		}
		if cv.ret == nil {
			return fail("L-call-never-returned", fmt.Sprintf("call %d never returned", ci))
		}
		ret := cv.ret
		budget := int64(-1)
		if s.Tries >= 0 {
			budget = T * ((int64(1) << uint(s.Tries)) - 1)
		}
		// must-see accepting datagrams, in delivery order
		firstMust := -1
		var firstMustEv *Event
		type inst struct {
			di int
			de *Event
		}
		var insts []inst
		for di, d := range s.Dgs {
			if d.Kind == DgDup || !d.accepts(spec) {
				continue
			}
			for _, de := range deliverAll[di] {
				insts = append(insts, inst{di, de})
			}
		}
		for _, in := range insts {
			di, de := in.di, in.de
			must := false
			for k, tx := range cv.tx {
				dl := tx.T + T*(int64(1)<<uint(k))
				if de.Seq > tx.Seq && de.T < dl {
					// inside try k's window; the window ends when the next try starts or the call returns
					if k+1 < len(cv.tx) && de.Seq > cv.tx[k+1].Seq {
						continue
					}
					must = true
				}
			}
			if ce := cancelT[ci]; ce != nil && de.T >= ce.T {
				must = false
			}
			if closeCall != nil && de.T >= closeCall.T {
				must = false
			}
			if must && (firstMustEv == nil || de.Seq < firstMustEv.Seq) {
				firstMust, firstMustEv = di, de
			}
		}
		// other call with the same id overlapping?
		overlap := false
		for cj, ov := range calls {
			if cj == ci || s.Calls[cj].ID != spec.ID || ov.inv == nil {
				continue
			}
			if ov.inv.Seq < ret.Seq && (ov.ret == nil || ov.ret.Seq > cv.inv.Seq) {
				overlap = true
			}
		}
		out = append(out, fmt.Sprintf("%d:%s%d", ci, ret.Err, ret.Resp))
		switch {
		case ret.Err == "" && ret.Resp >= 0:
			j := ret.Resp
			if has("R") {
				if j >= len(s.Dgs) {
					return fail("R1-validity", fmt.Sprintf("call %d returned a datagram that was never injected (serial %d)", ci, j))
				}
				d := s.Dgs[j]
				// the delivery this call consumed: the earliest instance inside the call's window
				var de *Event
				for _, x := range deliverAll[j] {
					if cv.inv.T <= x.T && x.Seq < ret.Seq {
						de = x
						break
					}
				}
				if !d.qualifies(spec.ID) {
					return fail("R1-validity", fmt.Sprintf("call %d (id %d) returned datagram %d which is %s for id %d", ci, spec.ID, j, dgNames[d.Kind], d.ID))
				}
				if !d.accepts(spec) {
					return fail("R1-matcher", fmt.Sprintf("call %d returned datagram %d which its matcher rejects", ci, j))
				}
				// a datagram read from the socket at the very instant of the invocation may still be in
				// the receive path when the call registers (processing takes no virtual time), so the
				// window is closed on the left by the invocation *instant*, on the right by the return
				if de == nil || !(cv.inv.T <= de.T && de.Seq < ret.Seq) {
					return fail("R1-window", fmt.Sprintf("call %d returned datagram %d which did not arrive while the call was waiting", ci, j))
				}
				returnedBy[j]++
				if returnedBy[j] > len(deliverAll[j]) {
					return fail("R2-exclusive", fmt.Sprintf("datagram %d was delivered %d time(s) but returned by %d calls", j, len(deliverAll[j]), returnedBy[j]))
				}
				want := expectDecoded(s.V6, buildDg(s.V6, d, j))
				if run.respAtReturn[ci] != nil && !bytes.Equal(run.respAtReturn[ci], want) {
					return fail("R1-content", fmt.Sprintf("call %d returned a message that is not the decoding of datagram %d", ci, j))
				}
				if run.respNow[ci] != nil && !bytes.Equal(run.respNow[ci](), want) {
					return fail("R1-content-changed-later", fmt.Sprintf("the message returned to call %d (datagram %d) changed after it was returned", ci, j))
				}
				if firstMustEv != nil && firstMustEv.Seq < de.Seq {
					return fail("R3-first", fmt.Sprintf("call %d returned datagram %d although acceptable datagram %d arrived earlier while it was waiting", ci, j, firstMust))
				}
			}
			if has("L") {
				okT := len(deliverAll[j]) == 0
				for _, x := range deliverAll[j] {
					if x.T == ret.T {
						okT = true
					}
				}
				if de := deliver[j]; !okT {
					return fail("L3-prompt", fmt.Sprintf("call %d returned datagram %d at t=%d but it arrived at t=%d", ci, j, ret.T, de.T))
				}
			}
		case ret.Err == "" && ret.Resp < 0:
			return fail("R4-nil-nil", fmt.Sprintf("call %d returned a nil response with a nil error", ci))
		case ret.Err == "noresp":
			if has("R") && len(cv.tx) == 0 && s.Tries != 0 && len(s.FailWrites) == 0 && (closeCall == nil || closeCall.Seq > ret.Seq) {
				return fail("R0-not-transmitted", fmt.Sprintf("call %d failed with no-response without a single transmission on the client's connection", ci))
			}
			if has("R") && firstMustEv != nil {
				return fail("R3-lost", fmt.Sprintf("call %d failed with no-response although acceptable datagram %d arrived (t=%d) while it was waiting", ci, firstMust, firstMustEv.T))
			}
			if has("L") || has("S") {
				okT := budget >= 0 && ret.T == cv.inv.T+budget
				if closeCall != nil && closeCall.Seq < ret.Seq && ret.T == max64(closeCall.T, cv.inv.T) {
					okT = true
				}
				if !okT {
					return fail("L4-noresp-instant", fmt.Sprintf("call %d failed with no-response at t=%d; allowed: invoke+T*(2^n-1)=%d or the Close instant", ci, ret.T, cv.inv.T+budget))
				}
			}
		case ret.Err == "ctx":
			ce := cancelT[ci]
			if has("L") {
				if ce == nil {
					return fail("L4-ctx", fmt.Sprintf("call %d returned a context error but its context never ended", ci))
				}
				if ret.T != max64(ce.T, cv.inv.T) {
					return fail("L4-ctx-instant", fmt.Sprintf("call %d returned the context error at t=%d, context ended at t=%d", ci, ret.T, ce.T))
				}
			}
		case ret.Err == "inuse":
			if has("R") || has("L") {
				if !overlap {
					return fail("R6-reuse", fmt.Sprintf("call %d refused with transaction-id-in-use although no other call with id %d was in flight", ci, spec.ID))
				}
			}
		case ret.Err == "write":
			injected := false
			for i := range h.Ev {
				if e := &h.Ev[i]; e.Kind == EvNote && e.Note == "write-fault" && e.Th == run.thOf[ci] && e.Seq > cv.inv.Seq && e.Seq < ret.Seq {
					injected = true
				}
			}
			if has("L") && injected && ret.T != cv.inv.T+T*((int64(1)<<uint(len(cv.tx)))-1) {
				return fail("L4-write-error-instant", fmt.Sprintf("call %d reported the write error at t=%d, the failing transmission was due at t=%d", ci, ret.T, cv.inv.T+T*((int64(1)<<uint(len(cv.tx)))-1)))
			}
			if !injected && closeCall != nil && closeCall.Seq < ret.Seq && has("L") && closeCall.T > cv.inv.T {
				// a write error is a legitimate outcome of Close only when Close raced with a transmission,
				// i.e. happened at the very instant a try starts; a call that was waiting inside a try must
				// report the no-response error
				atBoundary := false
				for k := 0; k <= 62; k++ {
					b := cv.inv.T + T*((int64(1)<<uint(k))-1)
					if b == closeCall.T {
						atBoundary = true
					}
					if b >= closeCall.T {
						break
					}
				}
				if !atBoundary {
					return fail("L4-close-error", fmt.Sprintf("call %d was waiting when Close was called at t=%d but returned a write error instead of the no-response error", ci, closeCall.T))
				}
			}
			if !injected && (closeCall == nil || closeCall.Seq > ret.Seq) {
				return fail("R4-error", fmt.Sprintf("call %d failed with a write error but the connection was open", ci))
			}
		default:
			return fail("R4-error", fmt.Sprintf("call %d returned unexpected error %q", ci, ret.Err))
		}
		if has("R") && ret.Err != "" && ret.Err != "noresp" && firstMustEv != nil && ret.Err != "inuse" {
			// ctx / close at the same instant as the arrival are simultaneous causes; otherwise the response must win
			if firstMustEv.T < ret.T {
				return fail("R3-lost", fmt.Sprintf("call %d returned %s at t=%d although acceptable datagram %d arrived at t=%d", ci, ret.Err, ret.T, firstMust, firstMustEv.T))
			}
		}
		if has("L") {
			// upper bound on the return instant: earliest obligatory cause
			bound := int64(1) << 62
			why := ""
			if budget >= 0 {
				bound, why = cv.inv.T+budget, "retry budget T*(2^n-1)"
			}
			if firstMustEv != nil && firstMustEv.T < bound {
				bound, why = firstMustEv.T, fmt.Sprintf("arrival of acceptable datagram %d", firstMust)
			}
			if ce := cancelT[ci]; ce != nil && max64(ce.T, cv.inv.T) < bound {
				bound, why = max64(ce.T, cv.inv.T), "context end"
			}
			if closeCall != nil && max64(closeCall.T, cv.inv.T) < bound {
				bound, why = max64(closeCall.T, cv.inv.T), "Close"
			}
			if ret.T > bound {
				return fail("L5-late", fmt.Sprintf("call %d returned at t=%d, later than %s at t=%d (invoked t=%d)", ci, ret.T, why, bound, cv.inv.T))
			}
		}
		if has("S") {
			// transmissions: k-th at invoke + T*(2^(k-1)-1), identical bytes, requested destination
			want := len(cv.tx)
			for k, tx := range cv.tx {
				at := cv.inv.T + T*((int64(1)<<uint(k))-1)
				if tx.T != at {
					return fail("S-instant", fmt.Sprintf("call %d transmission %d at t=%d, schedule says t=%d", ci, k+1, tx.T, at))
				}
				if run.reqAfter[ci] != nil && !bytes.Equal(run.reqAfter[ci], run.reqs[ci]) {
					return fail("S-request-changed", fmt.Sprintf("call %d: the caller's request object encodes differently after the call than before it", ci))
				}
				if !bytes.Equal(tx.W.Data, run.reqs[ci]) {
					return fail("S-bytes", fmt.Sprintf("call %d transmission %d differs from the request's encoding (%d vs %d bytes)", ci, k+1, len(tx.W.Data), len(run.reqs[ci])))
				}
				if tx.W.Dest != run.dests[ci] {
					return fail("S-dest", fmt.Sprintf("call %d transmission %d sent to %s, requested %s", ci, k+1, tx.W.Dest, run.dests[ci]))
				}
			}
			switch {
			case ret.Err == "noresp" && (closeCall == nil || closeCall.Seq > ret.Seq):
				if s.Tries >= 0 && want != s.Tries {
					return fail("S-count", fmt.Sprintf("call %d failed after %d transmissions, configured tries %d", ci, want, s.Tries))
				}
			case ret.Err == "" && ret.Resp >= 0:
				var de *Event
				for _, x := range deliverAll[ret.Resp] {
					if cv.inv.T <= x.T && x.Seq < ret.Seq && x.T == ret.T {
						de = x
					}
				}
				if de != nil {
					// number of transmissions = index of the try during which the response arrived;
					// an arrival exactly at a try's deadline instant may be taken by that try or by the next one
					k := 0
					for k+1 < len(cv.tx) && cv.tx[k+1].Seq < de.Seq {
						k++
					}
					for k+1 < len(cv.tx) && cv.tx[k+1].Seq > de.Seq && de.T >= cv.tx[k].T+T*(int64(1)<<uint(k)) {
						k++ // boundary instant: the next try may legitimately have been started
					}
					lo := 0
					for lo+1 < len(cv.tx) && cv.tx[lo+1].Seq < de.Seq {
						lo++
					}
					if want != k+1 && want != lo+1 {
						return fail("S-count", fmt.Sprintf("call %d transmitted %d times although the response arrived during try %d", ci, want, lo+1))
					}
					if s.Tries >= 0 && want > s.Tries {
						return fail("S-count", fmt.Sprintf("call %d transmitted %d times, configured tries %d", ci, want, s.Tries))
					}
				}
			}
		}
	}
	return "", strings.Join(out, ",")
}

func max64(a, b int64) int64 {
	if a > b {
		return a
	}
	return b
}

// expectDecoded is the re-encoding of the decoded datagram, computed with the plain codec.
func expectDecoded(v6 bool, data []byte) []byte {
	if !v6 {
		p, err := dhcpv4.FromBytes(append([]byte(nil), data...))
		if err != nil {
			return nil
		}
		return p.ToBytes()
	}
	m, err := dhcpv6.MessageFromBytes(append([]byte(nil), data...))
	if err != nil {
		return nil
	}
	return m.ToBytes()
}
