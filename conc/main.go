// schedmc: engine E2 — explores every schedule (up to a preemption bound) of
// scenarios driving the rewritten client/server packages under virtual time.
//
// usage: schedmc <property> <quick|thorough> [--replay file]
// (built with -overlay produced by engine/instrument; see run.sh)
package main

import (
	"bufio"
	"context"
	"crypto/sha1"
	"encoding/hex"
	"encoding/json"
	"fmt"
	"os"
	"os/exec"
	"path/filepath"
	"runtime"
	"sort"
	"strconv"
	"strings"
	"sync"
	"time"

	"github.com/insomniacslk/dhcp/verifshim/vs"
	"github.com/u-root/uio/rand"
)

// Scenario is anything the explorer can run.
type Scenario interface {
	ID() string       // stable identifier
	Family() string   // scenario family (for fingerprints)
	Describe() string // human readable parameters
	MaxBound() int    // preemption bound for this scenario
	Body() func()     // thread-0 body; must rebuild all state on every call
	Check(ex *vs.Exec) (violation, outcome string)
}

// detRand replaces the OS random source of github.com/u-root/uio/rand so that
// transaction ids are reproducible; the counter is reset at the start of every execution.
type detRand struct{}

var detCtr byte

func (detRand) Read(b []byte) (int, error) {
	for i := range b {
		detCtr += 37
		b[i] = detCtr
	}
	return len(b), nil
}
func (d detRand) ReadContext(_ context.Context, b []byte) (int, error) { return d.Read(b) }

var root = func() string {
	if r := os.Getenv("VERIF_ROOT"); r != "" {
		return r
	}
	return "/verif"
}()

type shardResult struct {
	Scenario    string         `json:"scenario"`
	Family      string         `json:"family"`
	Desc        string         `json:"desc"`
	Executions  int            `json:"executions"`
	BoundDone   int            `json:"bound_done"`
	Capped      bool           `json:"capped"`
	States      int            `json:"states"`
	Transitions int            `json:"transitions"`
	MaxPoints   int            `json:"max_points"`
	Outcomes    map[string]int `json:"outcomes"`
	Violation   string         `json:"violation,omitempty"`
	Rule        string         `json:"rule,omitempty"`
	Choices     []int          `json:"choices,omitempty"`
	Infra       string         `json:"infra,omitempty"`
	Reproduced  int            `json:"reproduced,omitempty"`
}

func scenariosFor(prop, tier string) []Scenario {
	all := scenariosFor0(prop, tier)
	if f := os.Getenv("VERIF_ONLY"); f != "" {
		var out []Scenario
		for _, s := range all {
			if strings.Contains(s.ID(), f) || strings.Contains(s.Family(), f) {
				out = append(out, s)
			}
		}
		return out
	}
	return all
}

func scenariosFor0(prop, tier string) []Scenario {
	switch prop {
	case "C12":
		return c12Scenarios(tier)
	case "C11":
		return c11Scenarios(tier)
	case "C10":
		return c10Scenarios(tier)
	case "C14":
		return c14Scenarios(tier)
	case "C13":
		return c13Scenarios(tier)
	}
	return nil
}

func exploreOne(sc Scenario, deadline time.Time, trackStates bool) shardResult {
	res := shardResult{Scenario: sc.ID(), Family: sc.Family(), Desc: sc.Describe()}
	body := sc.Body()
	cfg := vs.ExploreCfg{Bound: sc.MaxBound(), Deadline: deadline, Run: vs.Config{MaxSteps: 50000, TrackStates: trackStates}, Check: sc.Check}
	var r *vs.Result
	if sc.MaxBound() < 0 {
		// default schedule only (deterministic long scenarios), run twice for the determinism check
		ex := vs.RunOnce(cfg.Run, nil, body)
		r = &vs.Result{Executions: 1, BoundDone: 0, States: ex.StateHashes, Transitions: ex.Steps, Outcomes: map[string]int{}}
		v, out := sc.Check(ex)
		r.Outcomes[out]++
		if v != "" {
			r.Failure = &vs.Failure{Choices: ex.Choices, Msg: v, Exec: ex}
		}
	} else {
		r = vs.Explore(cfg, body)
	}
	res.Executions, res.BoundDone, res.Capped, res.States, res.Transitions, res.MaxPoints = r.Executions, r.BoundDone, r.Capped, len(r.States), r.Transitions, r.MaxPoints
	res.Outcomes = map[string]int{}
	for k, v := range r.Outcomes {
		if len(res.Outcomes) < 64 {
			res.Outcomes[k] = v
		}
	}
	if r.Failure != nil {
		if strings.HasPrefix(r.Failure.Msg, "INFRA:") {
			res.Infra = r.Failure.Msg
			return res
		}
		// re-run the schedule 5x: the same schedule must fail every time
		rep := 0
		for i := 0; i < 5; i++ {
			rc := cfg.Run
			rc.Sites = true
			ex := vs.RunOnce(rc, r.Failure.Choices, body)
			if v, _ := sc.Check(ex); v != "" && ruleOf(v) == ruleOf(r.Failure.Msg) {
				rep++
				r.Failure.Msg = v // with source locations
			}
		}
		res.Reproduced = rep
		if rep < 5 {
			res.Infra = fmt.Sprintf("INFRA: violation did not reproduce on replay (%d/5): %s", rep, r.Failure.Msg)
			return res
		}
		res.Violation = r.Failure.Msg
		res.Rule = ruleOf(r.Failure.Msg)
		res.Choices = r.Failure.Choices
	}
	return res
}

func ruleOf(msg string) string {
	if i := strings.Index(msg, ":"); i > 0 {
		return msg[:i]
	}
	return msg
}

func worker(prop, tier string, shard, nshard int, budget time.Duration) {
	rand.Reader = detRand{}
	runtime.GOMAXPROCS(1)
	scs := scenariosFor(prop, tier)
	deadline := time.Now().Add(budget)
	w := bufio.NewWriter(os.Stdout)
	defer w.Flush()
	enc := json.NewEncoder(w)
	// non-termination watchdog: an execution that has been running for VERIF_HANG_S seconds of wall time (default 120)
	// is code under test spinning without reaching a synchronisation operation; the goroutine cannot be stopped, so the
	// scenario is reported and the worker ends (the remaining scenarios of this shard are reported as not explored)
	var mu sync.Mutex
	cur := -1
	go func() {
		limit := int64(120)
		if v, err := strconv.Atoi(os.Getenv("VERIF_HANG_S")); err == nil && v > 0 {
			limit = int64(v)
		}
		memLimit := int64(4 << 10) // MiB per worker process (a worker normally stays below 1 GiB)
		if v, err := strconv.Atoi(os.Getenv("VERIF_MEM_MIB")); err == nil && v > 0 {
			memLimit = int64(v)
		}
		why := ""
		for tick := 0; ; tick++ {
			time.Sleep(200 * time.Millisecond)
			if rss := rssMiB(); rss > memLimit {
				// code under test allocating without bound: report before the operating system kills the process
				why = fmt.Sprintf("one execution made the process hold %d MiB (limit %d MiB)", rss, memLimit)
			} else {
				t0 := vs.ExecRunningSince()
				if tick%10 != 0 || t0 == 0 || time.Now().UnixNano()-t0 < limit*int64(time.Second) {
					continue
				}
				why = fmt.Sprintf("one execution has been running for more than %d s of wall time without ending", limit)
			}
			mu.Lock()
			sc := scs[cur]
			buf := make([]byte, 1<<18)
			buf = buf[:runtime.Stack(buf, true)]
			site := "unknown"
			for _, l := range strings.Split(string(buf), "\n") {
				if strings.HasPrefix(l, "github.com/insomniacslk/dhcp/") && !strings.Contains(l, "/verifshim/") {
					site = strings.TrimPrefix(l, "github.com/insomniacslk/dhcp/")
					if i := strings.LastIndexByte(site, '('); i > 0 {
						site = site[:i]
					}
					break
				}
			}
			enc.Encode(shardResult{Scenario: sc.ID(), Family: sc.Family(), Desc: sc.Describe(), Executions: 1, Reproduced: 5,
				Violation: fmt.Sprintf("L-hang: %s; innermost frame of the code under test: %s || scenario: %s", why, site, sc.Describe()), Rule: "L-hang"})
			for j := cur + 1; j < len(scs); j++ {
				if j%nshard == shard {
					enc.Encode(shardResult{Scenario: scs[j].ID(), Family: scs[j].Family(), Capped: true, BoundDone: -1})
				}
			}
			w.Flush()
			os.Exit(0)
		}
	}()
	for i, sc := range scs {
		if i%nshard != shard {
			continue
		}
		mu.Lock()
		cur = i
		mu.Unlock()
		if time.Now().After(deadline) {
			enc.Encode(shardResult{Scenario: sc.ID(), Family: sc.Family(), Capped: true, BoundDone: -1})
			continue
		}
		r := exploreOne(sc, deadline, true)
		mu.Lock()
		enc.Encode(r)
		w.Flush()
		mu.Unlock()
	}
}

type knownEntry struct{ prop, key, text string }

func loadKnown() []knownEntry {
	f, err := os.Open(filepath.Join(root, "known_findings.txt"))
	if err != nil {
		return nil
	}
	defer f.Close()
	var out []knownEntry
	sc := bufio.NewScanner(f)
	sc.Buffer(make([]byte, 1<<20), 1<<20)
	for sc.Scan() {
		l := strings.TrimSpace(sc.Text())
		if !strings.HasPrefix(l, "known:") {
			continue
		}
		l = strings.TrimSpace(strings.TrimPrefix(l, "known:"))
		var k knownEntry
		for _, f := range strings.Fields(l) {
			if strings.HasPrefix(f, "property=") && k.prop == "" {
				k.prop = strings.TrimPrefix(f, "property=")
			} else if strings.HasPrefix(f, "key=") && k.key == "" {
				k.key = strings.TrimPrefix(f, "key=")
			}
		}
		if i := strings.Index(l, "key="+k.key); i >= 0 {
			k.text = strings.TrimSpace(l[i+len("key="+k.key):])
		}
		if k.prop != "" && k.key != "" {
			out = append(out, k)
		}
	}
	return out
}

// rssMiB is the resident set size of this process (0 when /proc is not readable).
func rssMiB() int64 {
	b, err := os.ReadFile("/proc/self/statm")
	if err != nil {
		return 0
	}
	f := strings.Fields(string(b))
	if len(f) < 2 {
		return 0
	}
	pages, _ := strconv.ParseInt(f[1], 10, 64)
	return pages * int64(os.Getpagesize()) >> 20
}

func main() {
	if len(os.Args) < 3 {
		fmt.Fprintln(os.Stderr, "usage: schedmc <property> <quick|thorough> [--replay file]")
		os.Exit(2)
	}
	prop, tier := os.Args[1], os.Args[2]
	if w := os.Getenv("VERIF_WORKER"); w != "" {
		var k, n int
		fmt.Sscanf(w, "%d/%d", &k, &n)
		b, _ := strconv.Atoi(os.Getenv("VERIF_WORKER_BUDGET_S"))
		worker(prop, tier, k, n, time.Duration(b)*time.Second)
		return
	}
	if len(os.Args) >= 5 && os.Args[3] == "--replay" {
		os.Exit(replay(prop, tier, os.Args[4]))
	}
	start := time.Now()
	scs := scenariosFor(prop, tier)
	if len(scs) == 0 {
		fmt.Fprintln(os.Stderr, "schedmc: no scenarios for", prop)
		os.Exit(2)
	}
	nw := runtime.NumCPU()
	if v := os.Getenv("VERIF_WORKERS"); v != "" {
		if k, err := strconv.Atoi(v); err == nil && k > 0 {
			nw = k
		}
	}
	if nw > len(scs) {
		nw = len(scs)
	}
	budget := 8 * time.Minute
	if tier == "thorough" {
		budget = 90 * time.Minute
	}
	if b := os.Getenv("VERIF_BUDGET_S"); b != "" {
		if n, err := strconv.Atoi(b); err == nil {
			budget = time.Duration(n) * time.Second
		}
	}
	type wout struct {
		res []shardResult
		err error
	}
	outs := make(chan wout, nw)
	for k := 0; k < nw; k++ {
		k := k
		go func() {
			cmd := exec.Command(os.Args[0], prop, tier)
			cmd.Env = append(os.Environ(), fmt.Sprintf("VERIF_WORKER=%d/%d", k, nw), fmt.Sprintf("VERIF_WORKER_BUDGET_S=%d", int(budget.Seconds())))
			cmd.Stderr = os.Stderr
			b, err := cmd.Output()
			var rs []shardResult
			dec := json.NewDecoder(strings.NewReader(string(b)))
			for dec.More() {
				var r shardResult
				if e := dec.Decode(&r); e != nil {
					err = fmt.Errorf("worker %d: bad output: %v", k, e)
					break
				}
				rs = append(rs, r)
			}
			outs <- wout{rs, err}
		}()
	}
	var all []shardResult
	infra := ""
	for k := 0; k < nw; k++ {
		o := <-outs
		if o.err != nil {
			infra = o.err.Error()
		}
		all = append(all, o.res...)
	}
	sort.Slice(all, func(i, j int) bool { return all[i].Scenario < all[j].Scenario })
	if infra == "" && len(all) != len(scs) {
		infra = fmt.Sprintf("workers reported %d of %d scenarios", len(all), len(scs))
	}
	os.Exit(report(prop, tier, scs, all, infra, start))
}

func report(prop, tier string, scs []Scenario, all []shardResult, infra string, start time.Time) int {
	known := loadKnown()
	isKnown := func(fp string) (knownEntry, bool) {
		for _, k := range known {
			if k.prop == prop && k.key == fp {
				return k, true
			}
		}
		return knownEntry{}, false
	}
	var execs, states, trans int
	capped := false
	minBound := 99
	outcomes := map[string]bool{}
	fam := map[string]int{}
	perFamExec := map[string]int{}
	type vclass struct {
		fp    string
		first shardResult
		count int
	}
	classes := map[string]*vclass{}
	var order []string
	for _, r := range all {
		execs += r.Executions
		states += r.States
		trans += r.Transitions
		fam[r.Family]++
		perFamExec[r.Family] += r.Executions
		if r.Capped {
			capped = true
		}
		if r.Infra != "" && infra == "" {
			infra = r.Scenario + ": " + r.Infra
		}
		if r.BoundDone < minBound && r.Violation == "" {
			minBound = r.BoundDone
		}
		for o := range r.Outcomes {
			outcomes[r.Family+"/"+o] = true
		}
		if r.Violation != "" {
			fp := r.Family + "|" + r.Rule
			c := classes[fp]
			if c == nil {
				c = &vclass{fp: fp, first: r}
				classes[fp] = c
				order = append(order, fp)
			}
			c.count++
		}
	}
	if infra != "" {
		fmt.Fprintln(os.Stderr, "schedmc: infrastructure error:", infra)
		return 2
	}
	os.MkdirAll(filepath.Join(root, "replays"), 0o755)
	newV, knownV := 0, 0
	var vlist []map[string]any
	for _, fp := range order {
		c := classes[fp]
		if k, ok := isKnown(fp); ok {
			knownV++
			fmt.Printf("KNOWN-FINDING: property=%s key=%s %s\n", prop, k.key, k.text)
			vlist = append(vlist, map[string]any{"fingerprint": fp, "known": true, "scenarios": c.count})
			continue
		}
		newV++
		hsum := sha1.Sum([]byte(fp))
		path := filepath.Join(root, "replays", fmt.Sprintf("%s-%s.json", prop, hex.EncodeToString(hsum[:5])))
		rep := map[string]any{"property": prop, "engine": "schedmc", "tier": tier, "fingerprint": fp, "scenario": c.first.Scenario,
			"scenario_params": c.first.Desc, "choices": c.first.Choices, "explanation": c.first.Violation, "scenarios_in_class": c.count, "reproduced": c.first.Reproduced}
		b, _ := json.MarshalIndent(rep, "", " ")
		os.WriteFile(path, b, 0o644)
		fmt.Printf("VIOLATION property=%s replay=%s\n", prop, path)
		fmt.Printf("  class: %s (%d scenarios)\n  %s\n", fp, c.count, truncate(c.first.Violation, 1500))
		vlist = append(vlist, map[string]any{"fingerprint": fp, "known": false, "scenarios": c.count, "replay": path})
	}
	// supplementary free-running -race pass (thorough tier; run by the driver before this binary)
	fr := os.Getenv("VERIF_FREERACE")
	if strings.HasPrefix(fr, "race:") {
		path := fr[strings.Index(fr, ":")+1:]
		fp := "freerun|" + fr[:strings.Index(fr, ":")]
		if k, ok := isKnown(fp); ok {
			knownV++
			fmt.Printf("KNOWN-FINDING: property=%s key=%s %s\n", prop, k.key, k.text)
		} else {
			newV++
			fmt.Printf("VIOLATION property=%s replay=%s\n  class: %s (free-running pass under the Go race detector; see the log)\n", prop, path, fp)
			vlist = append(vlist, map[string]any{"fingerprint": fp, "known": false, "replay": path})
		}
	}
	var samples []any
	for i, r := range all {
		if i%(len(all)/6+1) == 0 {
			samples = append(samples, map[string]any{"scenario": r.Scenario, "params": r.Desc, "executions": r.Executions, "bound_completed": r.BoundDone, "outcomes": r.Outcomes})
		}
	}
	if minBound == 99 {
		minBound = -1
	}
	cov := map[string]any{
		"states":                               states,
		"transitions":                          trans,
		"traces_validated_against_impl":        execs,
		"evaluations":                          execs,
		"distinct_nontrivial":                  len(outcomes),
		"rule":                                 "every schedule of every scenario up to the preemption bound is executed on the instrumented real code (each execution is a trace of the implementation itself); distinct_nontrivial counts distinct (family, per-call outcome vector) observed; states = distinct abstract synchronisation states (pending-op vector, channel fill/closed, clock) summed over scenarios; transitions = scheduling steps",
		"samples":                              samples,
		"scenarios":                            len(all),
		"scenario_families":                    fam,
		"executions_per_family":                perFamExec,
		"bound_completed_min":                  minBound,
		"exhaustive":                           !capped,
		"violation_classes":                    vlist,
		"supplementary_free_running_race_pass": fr,
	}
	ev := map[string]any{"property_id": prop, "tier": tier, "seed": seed(), "level": "model_checking", "coverage": cov,
		"assumptions": []string{"sequential consistency at synchronisation-operation granularity (race-free => SC, races checked by the vector-clock monitor on instrumented accesses)",
			"virtual time: computation is instantaneous relative to timeouts", "the rewritten packages are generated from /repo's working tree by engine/instrument on this run"},
		"wall_s": time.Since(start).Seconds(), "violations": newV, "known_findings_reported": knownV}
	b, _ := json.MarshalIndent(ev, "", " ")
	os.MkdirAll(filepath.Join(root, "evidence"), 0o755)
	os.WriteFile(filepath.Join(root, "evidence", prop+".json"), b, 0o644)
	fmt.Printf("%s %s: scenarios=%d executions=%d states=%d outcomes=%d bound_completed_min=%d violations=%d known=%d exhaustive=%v wall=%.1fs\n",
		prop, tier, len(all), execs, states, len(outcomes), minBound, newV, knownV, !capped, time.Since(start).Seconds())
	if newV > 0 {
		return 1
	}
	return 0
}

func seed() int64 {
	n, _ := strconv.ParseInt(os.Getenv("VERIF_SEED"), 10, 64)
	return n
}

func truncate(s string, n int) string {
	if len(s) <= n {
		return s
	}
	return s[:n] + "…"
}

func replay(prop, tier, file string) int {
	b, err := os.ReadFile(file)
	if err != nil {
		fmt.Fprintln(os.Stderr, err)
		return 2
	}
	var rep struct {
		Scenario string `json:"scenario"`
		Choices  []int  `json:"choices"`
	}
	if err := json.Unmarshal(b, &rep); err != nil {
		fmt.Fprintln(os.Stderr, err)
		return 2
	}
	rand.Reader = detRand{}
	for _, sc := range scenariosFor(prop, tier) {
		if sc.ID() != rep.Scenario {
			continue
		}
		ex := vs.RunOnce(vs.Config{MaxSteps: 50000, Log: true}, rep.Choices, sc.Body())
		if ex.Diverged != "" {
			fmt.Fprintln(os.Stderr, "replay diverged:", ex.Diverged)
			return 2
		}
		v, out := sc.Check(ex)
		fmt.Printf("scenario %s: %s\noutcome: %s\n", sc.ID(), sc.Describe(), out)
		if v != "" {
			fmt.Printf("VIOLATION property=%s replay=%s\n  %s\n", prop, file, v)
			return 1
		}
		fmt.Println("no violation on this schedule")
		return 0
	}
	fmt.Fprintln(os.Stderr, "scenario not found:", rep.Scenario)
	return 2
}
