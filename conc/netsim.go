package main

import (
	"errors"
	"net"
	"os"
	"time"

	"github.com/insomniacslk/dhcp/verifshim/vs"
)

// Datagram is one scripted input of the in-memory PacketConn.
type Datagram struct {
	Serial int
	Data   []byte
	From   net.Addr
	Err    error // a read error instead of data
}

// Write is one recorded transmission.
type Write struct {
	Seq  int
	T    int64
	Dest string
	Data []byte
}

var errClosedConn = errors.New("use of closed network connection")
var errInjectedWrite = errors.New("network is down (injected)")

// what a real UDP socket returns from WriteTo after an expired write deadline: a timeout-typed error
var errInjectedWriteTimeout error = &net.OpError{Op: "write", Net: "udp", Err: os.ErrDeadlineExceeded}
var errInjectedClose = errors.New("input/output error on close (injected)")

// Conn is a scripted net.PacketConn built on shim primitives: ReadFrom blocks on a
// scheduler-owned queue, every WriteTo is a scheduling point and is logged.
type Conn struct {
	q            *vs.Chan[Datagram]
	closedCh     *vs.Chan[struct{}]
	closed       bool
	h            *History
	WriteErr     error
	FailWrite    map[int]bool // indices (0-based, in call order) of WriteTo calls that fail
	FailWriteErr error        // the error those calls return (nil: errInjectedWrite)
	nWrites      int
	OnWrite      func(w Write)
	OnReadErr    func() // called when a scripted read error is handed to the code under test
	CloseErr     error  // returned by Close (the socket is closed all the same, as an OS does when close(2) reports EIO)
	local        net.Addr
}

func NewConn(h *History) *Conn {
	return &Conn{q: vs.MakeChan[Datagram](1 << 20).Named("sock-rx"), closedCh: vs.MakeChan[struct{}](0).Named("sock-closed"), h: h,
		local: &net.UDPAddr{IP: net.IPv4(10, 0, 0, 2), Port: 68}}
}

// DeliverAt schedules datagram d to become readable at virtual instant at.
func (c *Conn) DeliverAt(at int64, d Datagram) {
	vs.At(at, "dgram", func() {
		c.h.add(Event{Kind: EvArrive, Dg: d.Serial})
		c.q.InjectByClock(d)
	})
}

// DeliverGroupAt makes a run of datagrams readable at the same instant, in order.
func (c *Conn) DeliverGroupAt(at int64, ds []Datagram) {
	vs.At(at, "dgrams", func() {
		for _, d := range ds {
			c.h.add(Event{Kind: EvArrive, Dg: d.Serial})
			c.q.InjectByClock(d)
		}
	})
}

// DeliverNow makes d readable immediately (used by scripted servers reacting to a write).
func (c *Conn) DeliverNow(d Datagram) {
	c.h.add(Event{Kind: EvArrive, Dg: d.Serial})
	c.q.InjectByClock(d)
}

func (c *Conn) ReadFrom(b []byte) (int, net.Addr, error) {
	s := vs.Select(false, vs.RecvCase(c.closedCh), vs.RecvCase(c.q))
	if c.closed || s.I == 0 {
		return 0, nil, &net.OpError{Op: "read", Net: "udp", Err: errClosedConn}
	}
	d := vs.Val(c.q, s)
	if d.Err != nil {
		c.h.add(Event{Kind: EvReadErr, Dg: d.Serial})
		if c.OnReadErr != nil {
			c.OnReadErr()
		}
		return 0, nil, d.Err
	}
	n := copy(b, d.Data)
	c.h.add(Event{Kind: EvDeliver, Dg: d.Serial})
	return n, d.From, nil
}

func (c *Conn) WriteTo(b []byte, addr net.Addr) (int, error) {
	vs.IOPoint("WriteTo")
	if c.closed {
		return 0, &net.OpError{Op: "write", Net: "udp", Err: errClosedConn}
	}
	if c.WriteErr != nil {
		return 0, c.WriteErr
	}
	k := c.nWrites
	c.nWrites++
	if c.FailWrite[k] {
		c.h.add(Event{Kind: EvNote, Note: "write-fault"})
		if c.FailWriteErr != nil {
			return 0, c.FailWriteErr
		}
		return 0, errInjectedWrite
	}
	w := Write{T: vs.NowTicks(), Dest: addr.String(), Data: append([]byte(nil), b...)}
	w.Seq = c.h.add(Event{Kind: EvTX, W: &w})
	if c.OnWrite != nil {
		c.OnWrite(w)
	}
	return len(b), nil
}

func (c *Conn) Close() error {
	vs.Yield()
	if c.closed {
		return &net.OpError{Op: "close", Net: "udp", Err: errClosedConn}
	}
	c.closed = true
	c.closedCh.Close()
	return c.CloseErr
}

func (c *Conn) LocalAddr() net.Addr                { return c.local }
func (c *Conn) SetDeadline(t time.Time) error      { return nil }
func (c *Conn) SetReadDeadline(t time.Time) error  { return nil }
func (c *Conn) SetWriteDeadline(t time.Time) error { return nil }
