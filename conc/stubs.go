package main

func c14Scenarios(tier string) []Scenario { return nil }
func c13Scenarios(tier string) []Scenario { return nil }
