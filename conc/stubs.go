package main

