package main
