package main

func c13Scenarios(tier string) []Scenario { return nil }
