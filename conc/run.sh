#!/bin/bash
# build and run engine E2 for one property: instrument the working tree, build with the overlay, explore.
set -u
cd "$(dirname "$0")/.."
ROOT=$(pwd)
export GOFLAGS=-mod=mod GOPROXY=off GOSUMDB=off GOTOOLCHAIN=local
ID=$1; TIER=$2; shift; shift
W="$ROOT/.work/conc.$$"
mkdir -p "$W" "$ROOT/.work/bin"
trap 'rm -rf "$W"' EXIT
cp /repo/go.sum "$ROOT/conc/go.sum" 2>/dev/null
if [ ! -x "$ROOT/.work/bin/instrument" ] || [ "$ROOT/engine/instrument/main.go" -nt "$ROOT/.work/bin/instrument" ]; then
  (cd "$ROOT/engine/instrument" && go build -o "$ROOT/.work/bin/instrument" .) || { echo "check: cannot build the instrumenter (infrastructure error)" >&2; exit 2; }
fi
"$ROOT/.work/bin/instrument" -repo /repo -shim "$ROOT/engine/shim" -out "$W/inst" dhcpv4/nclient4 dhcpv6/nclient6 dhcpv4/server4 dhcpv6/server6 > "$W/inst.log" 2>&1 || { cat "$W/inst.log" >&2; echo "check: instrumentation failed (infrastructure error, not a verdict)" >&2; exit 2; }
(cd "$ROOT/conc" && go build -overlay "$W/inst/overlay.json" -o "$W/schedmc" .) || { echo "check: build failed (infrastructure error, not a verdict)" >&2; exit 2; }
"$W/schedmc" "$ID" "$TIER" "$@"
