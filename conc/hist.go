package main

import (
	"fmt"
	"strings"

	"github.com/insomniacslk/dhcp/verifshim/vs"
)

type EvKind int

const (
	EvInvoke EvKind = iota
	EvReturn
	EvTX
	EvArrive  // datagram became readable on the socket
	EvDeliver // ReadFrom returned it to the code under test
	EvReadErr
	EvCancel
	EvCloseCall
	EvCloseRet
	EvHandler // server handler invoked
	EvServeRet
	EvNote
)

var evNames = [...]string{"INVOKE", "RETURN", "TX", "ARRIVE", "DELIVER", "READERR", "CANCEL", "CLOSE_CALL", "CLOSE_RETURN", "HANDLER", "SERVE_RETURN", "NOTE"}

// Event is one entry of the recorded history; Seq is its position (total order), T the virtual instant.
type Event struct {
	Seq  int
	T    int64
	Th   int
	Kind EvKind
	Call int
	Dg   int
	W    *Write
	Resp int    // serial of the returned datagram (-1: none)
	Err  string // error class
	Note string
}

type History struct {
	Ev []Event
}

func (h *History) add(e Event) int {
	e.Seq = len(h.Ev)
	e.T = vs.NowTicks()
	if e.Kind != EvInvoke && e.Kind != EvReturn {
		e.Th = vs.ThreadID()
	}
	h.Ev = append(h.Ev, e)
	return e.Seq
}

func (h *History) String() string {
	var b strings.Builder
	for _, e := range h.Ev {
		fmt.Fprintf(&b, "#%d t=%d %s", e.Seq, e.T, evNames[e.Kind])
		switch e.Kind {
		case EvInvoke:
			fmt.Fprintf(&b, " call=%d", e.Call)
		case EvReturn:
			fmt.Fprintf(&b, " call=%d resp=%d err=%q", e.Call, e.Resp, e.Err)
		case EvTX:
			fmt.Fprintf(&b, " dest=%s len=%d", e.W.Dest, len(e.W.Data))
		case EvArrive, EvDeliver, EvReadErr, EvHandler:
			fmt.Fprintf(&b, " dg=%d", e.Dg)
		case EvCancel:
			fmt.Fprintf(&b, " call=%d", e.Call)
		}
		if e.Note != "" {
			fmt.Fprintf(&b, " %s", e.Note)
		}
		b.WriteString("; ")
	}
	return b.String()
}
