package main

import (
	"bytes"
	"context"
	"errors"
	"fmt"
	"net"
	"os"
	"strconv"
	"strings"
	"time"

	"github.com/insomniacslk/dhcp/dhcpv4"
	"github.com/insomniacslk/dhcp/dhcpv4/nclient4"
	"github.com/insomniacslk/dhcp/dhcpv6"
	"github.com/insomniacslk/dhcp/dhcpv6/nclient6"
	"github.com/insomniacslk/dhcp/verifshim/vs"
)

// ---- C13: lease acquisition follows the exchange rules for every scripted server behaviour ----

// RK is a reply kind of the scripted servers.
type RK int

const (
	// DHCPv4
	ROffer1     RK = iota // OFFER from server 1, address A
	ROffer2               // OFFER from server 2, address B
	ROfferNoSID           // OFFER without server identifier
	RAck1                 // ACK from server 1
	RAck2                 // ACK from server 2
	RNak1
	RNak2
	RAckNoSID
	RWrongXid // ACK/OFFER (by phase) with another transaction id
	RWrongHW  // for another hardware address
	RGarbage
	// DHCPv6
	RAdv1 // ADVERTISE server id 1
	RAdv2
	RReply
	RReplyRapid // REPLY with rapid commit
	RRelay      // RELAY-REPL wrapper
	RAdvNoCID
	RAdvNoSID
	RAdvNoIANA
	RWrongXid6
	RGarbage6
	ROther6 // valid message with the right id but of a type that answers nothing (RECONFIGURE)
)

var rkNames = map[RK]string{ROffer1: "OFFER(s1)", ROffer2: "OFFER(s2)", ROfferNoSID: "OFFER(nosid)", RAck1: "ACK(s1)", RAck2: "ACK(s2)", RNak1: "NAK(s1)", RNak2: "NAK(s2)",
	RAckNoSID: "ACK(nosid)", RWrongXid: "wrongxid", RWrongHW: "wronghw", RGarbage: "garbage", RAdv1: "ADV(s1)", RAdv2: "ADV(s2)", RReply: "REPLY", RReplyRapid: "REPLY+rapid",
	RRelay: "RELAY-REPL", RAdvNoCID: "ADV(nocid)", RAdvNoSID: "ADV(nosid)", RAdvNoIANA: "ADV(noiana)", RWrongXid6: "wrongxid", RGarbage6: "garbage", ROther6: "RECONFIGURE"}

var srvIP = map[int]net.IP{1: net.IPv4(10, 0, 0, 1).To4(), 2: net.IPv4(10, 0, 0, 2).To4()}
var leasedIP = net.IPv4(10, 1, 0, 77).To4()
var offIP = map[int]net.IP{0: net.IPv4(10, 7, 0, 9).To4(), 1: net.IPv4(10, 1, 0, 11).To4(), 2: net.IPv4(10, 2, 0, 22).To4()}

type ExScenario struct {
	Name   string
	Op     string // "request", "renew", "release", "inform", "solicit", "request6", "rapid"
	P1, P2 []RK   // replies to the first / second distinct client message
	Bound  int
	Size   int  // >0: every well-formed reply is padded with a filler option to exactly this many bytes
	Fault  bool // renew: a first attempt whose transmission fails (injected write error) precedes the exchange under test
}

func (s *ExScenario) String() string {
	f := func(l []RK) string {
		var o []string
		for _, k := range l {
			o = append(o, rkNames[k])
		}
		return "[" + strings.Join(o, " ") + "]"
	}
	flt := ""
	if s.Fault {
		flt = " (after an attempt whose transmission failed)"
	}
	if s.Size > 0 {
		flt += fmt.Sprintf(" (replies of %d bytes)", s.Size)
	}
	return fmt.Sprintf("%s op=%s%s phase1=%s phase2=%s", s.Name, s.Op, flt, f(s.P1), f(s.P2))
}

// reply metadata the oracle needs
type replyMeta struct {
	kind   RK
	serial int
	phase  int
	valid  bool // decodes, right xid, right hardware address, BOOTREPLY
	typ    int  // v4: message type; v6: message type
	server int  // 0: no server id
}

type exRun struct {
	h       *History
	sc      *ExScenario
	txs     []exTx
	replies []replyMeta
	// results
	err      error
	offerSer int
	ackSer   int
	nakSer   int
	respSer  int
	respType int
	done     bool
}

type exTx struct {
	t    int64
	dest string
	v4   *dhcpv4.DHCPv4
	v6   *dhcpv6.Message
	raw  []byte
}

func ser4(p *dhcpv4.DHCPv4) int {
	if p == nil {
		return -1
	}
	v := p.Options.Get(dhcpv4.GenericOptionCode(serialOpt4))
	if len(v) != 1 {
		return -2
	}
	return int(v[0])
}

func ser6(m *dhcpv6.Message) int {
	if m == nil {
		return -1
	}
	o := m.GetOneOption(dhcpv6.OptionCode(serialOpt6))
	if o == nil || len(o.ToBytes()) != 1 {
		return -2
	}
	return int(o.ToBytes()[0])
}

func build4(req *dhcpv4.DHCPv4, k RK, serial, phase int) ([]byte, replyMeta) {
	meta := replyMeta{kind: k, serial: serial, phase: phase, valid: true}
	if k == RGarbage {
		meta.valid = false
		return []byte{0x02, 0x01, byte(serial)}, meta
	}
	mt := dhcpv4.MessageTypeOffer
	srv := 0
	switch k {
	case ROffer1:
		srv = 1
	case ROffer2:
		srv = 2
	case ROfferNoSID:
	case RAck1:
		mt, srv = dhcpv4.MessageTypeAck, 1
	case RAck2:
		mt, srv = dhcpv4.MessageTypeAck, 2
	case RNak1:
		mt, srv = dhcpv4.MessageTypeNak, 1
	case RNak2:
		mt, srv = dhcpv4.MessageTypeNak, 2
	case RAckNoSID:
		mt = dhcpv4.MessageTypeAck
	case RWrongXid, RWrongHW:
		srv = 1
		if phase == 2 {
			mt = dhcpv4.MessageTypeAck
		}
	}
	p, _ := dhcpv4.NewReplyFromRequest(req, dhcpv4.WithMessageType(mt), dhcpv4.WithYourIP(offIP[srv]),
		dhcpv4.WithGeneric(dhcpv4.GenericOptionCode(serialOpt4), []byte{byte(serial)}))
	if srv != 0 {
		p.UpdateOption(dhcpv4.OptServerIdentifier(srvIP[srv]))
		p.ServerIPAddr = net.IPv4(10, 0, 0, 69).To4() // siaddr is the boot server (next-server), not the DHCP server
	}
	if k == RWrongXid {
		p.TransactionID[0] ^= 0xff
		meta.valid = false
	}
	if k == RWrongHW {
		// "another hardware address": a different one / none at all (hlen 0) / a proper prefix of the client's
		p.ClientHWAddr = otherMAC
		switch serial % 3 {
		case 1:
			p.ClientHWAddr = net.HardwareAddr{}
		case 2:
			p.ClientHWAddr = append(net.HardwareAddr{}, clientMAC[:3]...)
		}
		meta.valid = false
	}
	meta.typ, meta.server = int(mt), srv
	return p.ToBytes(), meta
}

var duidSrv = map[int]dhcpv6.DUID{1: &dhcpv6.DUIDLL{HWType: 1, LinkLayerAddr: net.HardwareAddr{2, 0, 0, 0, 0, 1}}, 2: &dhcpv6.DUIDLL{HWType: 1, LinkLayerAddr: net.HardwareAddr{2, 0, 0, 0, 0, 2}}}

func build6(req *dhcpv6.Message, k RK, serial, phase int) ([]byte, replyMeta) {
	meta := replyMeta{kind: k, serial: serial, phase: phase, valid: true}
	if k == RGarbage6 {
		meta.valid = false
		return []byte{0x07, byte(serial)}, meta
	}
	m := &dhcpv6.Message{MessageType: dhcpv6.MessageTypeAdvertise, TransactionID: req.TransactionID}
	m.AddOption(&dhcpv6.OptionGeneric{OptionCode: dhcpv6.OptionCode(serialOpt6), OptionData: []byte{byte(serial)}})
	cid := req.Options.ClientID()
	iana := &dhcpv6.OptIANA{IaId: [4]byte{1, 2, 3, byte(serial)}, T1: 10 * time.Second, T2: 20 * time.Second}
	iana.Options.Add(&dhcpv6.OptIAAddress{IPv6Addr: net.ParseIP(fmt.Sprintf("2001:db8::%d", 16+serial)), PreferredLifetime: 30 * time.Second, ValidLifetime: 60 * time.Second})
	iana.Options.Add(&dhcpv6.OptIAAddress{IPv6Addr: net.ParseIP(fmt.Sprintf("2001:db8:1::%d", 16+serial)), PreferredLifetime: 31 * time.Second, ValidLifetime: 61 * time.Second})
	iana.Options.Add(&dhcpv6.OptStatusCode{StatusCode: 0, StatusMessage: "ok"})
	srv := 1
	withCID, withSID, withIANA := true, true, true
	switch k {
	case RAdv2:
		srv = 2
	case RReply:
		m.MessageType = dhcpv6.MessageTypeReply
	case RReplyRapid:
		m.MessageType = dhcpv6.MessageTypeReply
		m.AddOption(&dhcpv6.OptionGeneric{OptionCode: dhcpv6.OptionRapidCommit})
	case ROther6:
		m.MessageType = dhcpv6.MessageTypeReconfigure
	case RAdvNoCID:
		withCID = false
	case RAdvNoSID:
		withSID = false
		srv = 0
	case RAdvNoIANA:
		withIANA = false
	case RWrongXid6:
		m.TransactionID[0] ^= 0xff
		meta.valid = false
	}
	if withCID && cid != nil {
		m.AddOption(dhcpv6.OptClientID(cid))
	}
	if withSID {
		m.AddOption(dhcpv6.OptServerID(duidSrv[srv]))
	}
	if withIANA {
		m.AddOption(iana)
	}
	meta.typ, meta.server = int(m.MessageType), srv
	if k == RRelay {
		r, _ := dhcpv6.EncapsulateRelay(m, dhcpv6.MessageTypeRelayReply, net.ParseIP("2001:db8::1"), net.ParseIP("fe80::9"))
		meta.valid = false
		return r.ToBytes(), meta
	}
	return m.ToBytes(), meta
}

// pad4/pad6 re-encode a well-formed reply with one filler option so that it is exactly size bytes long.
func pad4(data []byte, size int) []byte {
	p, err := dhcpv4.FromBytes(data)
	if size <= 0 || err != nil {
		return data
	}
	for f := 0; f <= size && len(p.ToBytes()) < size; f++ {
		p.UpdateOption(dhcpv4.OptGeneric(dhcpv4.GenericOptionCode(225), bytes.Repeat([]byte{0x5a}, f)))
	}
	return p.ToBytes()
}

func pad6(data []byte, size int) []byte {
	d, err := dhcpv6.FromBytes(data)
	if size < len(data)+4 || err != nil {
		return data
	}
	if m, ok := d.(*dhcpv6.Message); ok {
		m.AddOption(&dhcpv6.OptionGeneric{OptionCode: 65002, OptionData: bytes.Repeat([]byte{0x5a}, size-len(data)-4)})
		return m.ToBytes()
	}
	return data
}

const exT = 4 // ticks

func (s *ExScenario) body(out **exRun) func() {
	return func() {
		h := &History{}
		run := &exRun{h: h, sc: s, offerSer: -9, ackSer: -9, nakSer: -9, respSer: -9}
		*out = run
		conn := NewConn(h)
		v6 := s.Op == "solicit" || s.Op == "request6" || s.Op == "rapid"
		phase := 0
		var lastKey string
		serial := 0
		conn.OnWrite = func(w Write) {
			tx := exTx{t: w.T, dest: w.Dest, raw: w.Data}
			var key string
			if !v6 {
				p, err := dhcpv4.FromBytes(append([]byte(nil), w.Data...))
				if err != nil {
					run.txs = append(run.txs, tx)
					return
				}
				tx.v4 = p
				key = fmt.Sprintf("%v/%v", p.MessageType(), p.TransactionID)
			} else {
				d, err := dhcpv6.MessageFromBytes(append([]byte(nil), w.Data...))
				if err != nil {
					run.txs = append(run.txs, tx)
					return
				}
				tx.v6 = d
				key = fmt.Sprintf("%v/%v", d.MessageType, d.TransactionID)
			}
			run.txs = append(run.txs, tx)
			if key == lastKey {
				return // retransmission: servers already answered
			}
			lastKey = key
			phase++
			var list []RK
			switch phase {
			case 1:
				list = s.P1
			case 2:
				list = s.P2
			}
			for _, k := range list {
				var data []byte
				var meta replyMeta
				if !v6 {
					data, meta = build4(tx.v4, k, serial, phase)
					data = pad4(data, s.Size)
				} else {
					data, meta = build6(tx.v6, k, serial, phase)
					data = pad6(data, s.Size)
				}
				run.replies = append(run.replies, meta)
				conn.DeliverNow(Datagram{Serial: serial, Data: data, From: serverAddr})
				serial++
			}
		}
		T := time.Duration(exT * Tick)
		ctx := context.Background()
		if !v6 {
			cl, err := nclient4.NewWithConn(conn, clientMAC, nclient4.WithTimeout(T), nclient4.WithRetry(1), nclient4.WithServerAddr(serverAddr))
			if err != nil {
				panic(err)
			}
			canonicalLease := func() *nclient4.Lease {
				// a lease as a well-behaved exchange would have produced it (built with the plain codec)
				disc, _ := dhcpv4.NewDiscovery(clientMAC, dhcpv4.WithTransactionID(dhcpv4.TransactionID{9, 9, 9, 9}))
				ob, _ := build4(disc, ROffer1, 200, 1)
				off, _ := dhcpv4.FromBytes(ob)
				reqp, _ := dhcpv4.NewRequestFromOffer(off)
				ab, _ := build4(reqp, RAck1, 201, 2)
				ack, _ := dhcpv4.FromBytes(ab)
				// the server acknowledged another address than it offered: the lease is the ACK's
				ack.YourIPAddr = leasedIP
				return &nclient4.Lease{Offer: off, ACK: ack}
			}
			switch s.Op {
			case "request":
				lease, err := cl.Request(ctx)
				run.err = err
				if lease != nil {
					run.offerSer, run.ackSer = ser4(lease.Offer), ser4(lease.ACK)
				}
				var nak *nclient4.ErrNak
				if errors.As(err, &nak) {
					run.offerSer, run.nakSer = ser4(nak.Offer), ser4(nak.Nak)
				}
			case "renew":
				l0 := canonicalLease()
				if s.Fault {
					// a transient write error on the first attempt must not spoil the transaction id of the lease
					conn.FailWrite = map[int]bool{0: true}
					if _, err0 := cl.Renew(ctx, l0); err0 == nil {
						run.err = errors.New("the renewal whose transmission failed reported success")
						break
					}
				}
				lease, err := cl.Renew(ctx, l0)
				run.err = err
				if lease != nil {
					run.offerSer, run.ackSer = ser4(lease.Offer), ser4(lease.ACK)
				}
				var nak *nclient4.ErrNak
				if errors.As(err, &nak) {
					run.offerSer, run.nakSer = ser4(nak.Offer), ser4(nak.Nak)
				}
			case "release":
				run.err = cl.Release(canonicalLease())
			case "renew+release":
				// a renewal attempt (whatever its outcome) must leave the lease the caller holds intact:
				// releasing it afterwards still releases the leased address
				l0 := canonicalLease()
				cl.Renew(ctx, l0)
				run.txs = nil
				run.offerSer, run.ackSer = ser4(l0.Offer), ser4(l0.ACK)
				run.err = cl.Release(l0)
			case "inform":
				r, err := cl.Inform(ctx, net.IPv4(10, 1, 0, 11))
				run.err = err
				run.respSer = ser4(r)
			}
			if run.err != nil {
				_ = run.err.Error() // rendering the error is part of using it
			}
			_, _ = cl.RemoteAddr().String(), cl.InterfaceAddr().String()
			run.done = true
			cl.Close()
			return
		}
		cl, err := nclient6.NewWithConn(conn, clientMAC, nclient6.WithTimeout(T), nclient6.WithRetry(1), nclient6.WithBroadcastAddr(serverAddr6))
		if err != nil {
			panic(err)
		}
		switch s.Op {
		case "solicit":
			r, err := cl.Solicit(ctx)
			run.err, run.respSer = err, ser6(r)
			if r != nil {
				run.respType = int(r.MessageType)
			}
		case "rapid":
			r, err := cl.RapidSolicit(ctx)
			run.err, run.respSer = err, ser6(r)
			if r != nil {
				run.respType = int(r.MessageType)
			}
		case "request6":
			// advertise built with the plain codec, as a server would have sent it
			sol, _ := dhcpv6.NewSolicit(clientMAC)
			ab, _ := build6(sol, RAdv1, 200, 1)
			adv, _ := dhcpv6.MessageFromBytes(ab)
			r, err := cl.Request(ctx, adv)
			run.err, run.respSer = err, ser6(r)
			if r != nil {
				run.respType = int(r.MessageType)
			}
		}
		if run.err != nil {
			_ = run.err.Error()
		}
		_, _ = cl.RemoteAddr().String(), cl.InterfaceAddr().String()
		run.done = true
		cl.Close()
	}
}

func (s *ExScenario) check(run *exRun, ex *vs.Exec) (string, string) {
	fail := func(rule, msg string) (string, string) {
		return fmt.Sprintf("%s: %s || scenario: %s || history: %s", rule, msg, s.String(), run.h.String()), "VIOLATION"
	}
	if len(ex.Panics) > 0 {
		return fail("panic", ex.Panics[0])
	}
	if ex.Deadlock || ex.Horizon || !run.done {
		return fail("stuck", fmt.Sprintf("exchange did not complete: %v", ex.Blocked))
	}
	if len(ex.Races) > 0 {
		return fail("race", ex.Races[0])
	}
	ec := errClass(run.err)
	var nakE *nclient4.ErrNak
	if errors.As(run.err, &nakE) {
		ec = "nak"
	}
	// distinct transmissions (tries=1, so no retransmission is expected at all)
	byPhase := func(p int) []replyMeta {
		var o []replyMeta
		for _, r := range run.replies {
			if r.phase == p {
				o = append(o, r)
			}
		}
		return o
	}
	p1, p2 := byPhase(1), byPhase(2)
	// every message except RELEASE (which goes to the lease's server) is sent to the server address the client was configured with
	for i, tx := range run.txs {
		want := serverAddr.String()
		if tx.v6 != nil {
			want = serverAddr6.String()
		}
		if tx.v4 != nil && tx.v4.MessageType() == dhcpv4.MessageTypeRelease {
			continue
		}
		if tx.dest != want {
			return fail("X0-destination", fmt.Sprintf("transmission %d went to %s, the client is configured with server address %s", i+1, tx.dest, want))
		}
	}
	outcome := ec
	switch s.Op {
	case "request":
		if len(run.txs) == 0 || run.txs[0].v4 == nil || run.txs[0].v4.MessageType() != dhcpv4.MessageTypeDiscover {
			return fail("X1-discover", "first transmission is not a DISCOVER")
		}
		d := run.txs[0].v4
		if !bytes.Equal(d.ClientHWAddr, clientMAC) || d.OpCode != dhcpv4.OpcodeBootRequest {
			return fail("X1-discover", fmt.Sprintf("DISCOVER has chaddr %v dest %s", d.ClientHWAddr, run.txs[0].dest))
		}
		sel := -1
		for i, r := range p1 {
			if r.valid && r.typ == int(dhcpv4.MessageTypeOffer) {
				sel = i
				break
			}
		}
		if sel < 0 {
			if ec == "" || ec == "nak" {
				return fail("X2-no-offer", fmt.Sprintf("no valid OFFER was delivered but Request returned %q", ec))
			}
			if len(run.txs) != 1 {
				return fail("X2-no-offer", fmt.Sprintf("no valid OFFER was delivered but %d datagrams were transmitted", len(run.txs)))
			}
			return "", outcome
		}
		off := p1[sel]
		if len(run.txs) != 2 || run.txs[1].v4 == nil {
			return fail("X3-request", fmt.Sprintf("expected DISCOVER then one REQUEST, saw %d transmissions", len(run.txs)))
		}
		rq := run.txs[1].v4
		if rq.MessageType() != dhcpv4.MessageTypeRequest || rq.OpCode != dhcpv4.OpcodeBootRequest {
			return fail("X3-request", fmt.Sprintf("second transmission is %v", rq.MessageType()))
		}
		if !bytes.Equal(rq.ClientHWAddr, clientMAC) {
			return fail("X3-request-chaddr", fmt.Sprintf("REQUEST chaddr %v", rq.ClientHWAddr))
		}
		if rq.TransactionID != d.TransactionID {
			return fail("X3-request-xid", "REQUEST does not reuse the offer's transaction id")
		}
		if !rq.RequestedIPAddress().Equal(offIP[off.server]) {
			return fail("X3-request-addr", fmt.Sprintf("REQUEST asks for %v, offered %v", rq.RequestedIPAddress(), offIP[off.server]))
		}
		if off.server == 0 {
			if v := rq.Options.Get(dhcpv4.OptionServerIdentifier); len(v) != 0 {
				return fail("X3-request-sid", fmt.Sprintf("offer had no server identifier but REQUEST carries %v", v))
			}
		} else if !rq.ServerIdentifier().Equal(srvIP[off.server]) {
			return fail("X3-request-sid", fmt.Sprintf("REQUEST carries server id %v, offering server is %v", rq.ServerIdentifier(), srvIP[off.server]))
		}
		// completion: replies delivered after the REQUEST; replies of phase 1 that were still in flight may
		// or may not be seen by the second exchange
		complete := func(list []replyMeta) (string, int) {
			for _, r := range list {
				if r.valid && (r.typ == int(dhcpv4.MessageTypeAck) || r.typ == int(dhcpv4.MessageTypeNak)) && r.server == off.server {
					if r.typ == int(dhcpv4.MessageTypeAck) {
						return "", r.serial
					}
					return "nak", r.serial
				}
			}
			return "noresp", -1
		}
		okOutcome := false
		var want []string
		// the socket is a FIFO: the phase-1 replies the second exchange gets to see are a suffix of the phase-1 list
		// (those read after the REQUEST's transaction was registered), followed by the phase-2 replies
		var cands [][]replyMeta
		for k := len(p1); k > sel; k-- {
			cands = append(cands, append(append([]replyMeta{}, p1[k:]...), p2...))
		}
		for _, cand := range cands {
			wc, ws := complete(cand)
			want = append(want, fmt.Sprintf("%s/%d", wc, ws))
			if wc != ec {
				continue
			}
			switch wc {
			case "":
				if run.offerSer == off.serial && run.ackSer == ws {
					okOutcome = true
				}
			case "nak":
				if run.offerSer == off.serial && run.nakSer == ws {
					okOutcome = true
				}
			default:
				okOutcome = true
			}
		}
		if !okOutcome {
			return fail("X4-completion", fmt.Sprintf("Request returned %q (offer serial %d, ack %d, nak %d); the exchange rules allow %v with offer serial %d", ec, run.offerSer, run.ackSer, run.nakSer, want, off.serial))
		}
	case "renew":
		if len(run.txs) != 1 || run.txs[0].v4 == nil {
			return fail("X5-renew", fmt.Sprintf("Renew transmitted %d datagrams", len(run.txs)))
		}
		rq := run.txs[0].v4
		if rq.MessageType() != dhcpv4.MessageTypeRequest || !rq.ClientIPAddr.Equal(leasedIP) || rq.IsBroadcast() ||
			rq.Options.Has(dhcpv4.OptionRequestedIPAddress) || rq.Options.Has(dhcpv4.OptionServerIdentifier) || !bytes.Equal(rq.ClientHWAddr, clientMAC) {
			return fail("X5-renew-fields", fmt.Sprintf("RENEW request: type %v ciaddr %v broadcast %v opt50 %v opt54 %v", rq.MessageType(), rq.ClientIPAddr, rq.IsBroadcast(),
				rq.Options.Has(dhcpv4.OptionRequestedIPAddress), rq.Options.Has(dhcpv4.OptionServerIdentifier)))
		}
		wc, ws := "noresp", -1
		for _, r := range p1 {
			if r.valid && (r.typ == int(dhcpv4.MessageTypeAck) || r.typ == int(dhcpv4.MessageTypeNak)) && r.server == 1 {
				wc, ws = "", r.serial
				if r.typ == int(dhcpv4.MessageTypeNak) {
					wc = "nak"
				}
				break
			}
		}
		if wc != ec || (wc == "" && (run.ackSer != ws || run.offerSer != 200)) || (wc == "nak" && (run.nakSer != ws || run.offerSer != 200)) {
			return fail("X5-renew-completion", fmt.Sprintf("Renew returned %q (offer %d ack %d nak %d), rules say %q with serial %d and the lease's own offer", ec, run.offerSer, run.ackSer, run.nakSer, wc, ws))
		}
	case "release", "renew+release":
		if s.Op == "renew+release" && (run.offerSer != 200 || run.ackSer != 201) {
			return fail("X8-lease-mutated", fmt.Sprintf("Renew changed the lease it was given (offer serial %d, ack serial %d; were 200, 201)", run.offerSer, run.ackSer))
		}
		if ec != "" {
			return fail("X6-release", fmt.Sprintf("Release returned %q", ec))
		}
		if len(run.txs) != 1 || run.txs[0].v4 == nil {
			return fail("X6-release", fmt.Sprintf("Release transmitted %d datagrams", len(run.txs)))
		}
		rq := run.txs[0].v4
		wantDest := (&net.UDPAddr{IP: srvIP[1], Port: 67}).String()
		if rq.MessageType() != dhcpv4.MessageTypeRelease || !rq.ClientIPAddr.Equal(leasedIP) || !bytes.Equal(rq.ClientHWAddr, clientMAC) ||
			!rq.ServerIdentifier().Equal(srvIP[1]) || run.txs[0].dest != wantDest {
			return fail("X6-release-fields", fmt.Sprintf("RELEASE: type %v ciaddr %v chaddr %v sid %v dest %s (want %s)", rq.MessageType(), rq.ClientIPAddr, rq.ClientHWAddr, rq.ServerIdentifier(), run.txs[0].dest, wantDest))
		}
	case "inform":
		if len(run.txs) != 1 || run.txs[0].v4 == nil || run.txs[0].v4.MessageType() != dhcpv4.MessageTypeInform {
			return fail("X7-inform", "Inform did not transmit exactly one INFORM")
		}
		wc, ws := "noresp", -9
		for _, r := range p1 {
			if r.valid && r.typ == int(dhcpv4.MessageTypeAck) {
				wc, ws = "", r.serial
				break
			}
		}
		if wc != ec || (wc == "" && run.respSer != ws) {
			return fail("X7-inform-completion", fmt.Sprintf("Inform returned %q serial %d, rules say %q serial %d", ec, run.respSer, wc, ws))
		}
	case "solicit", "rapid", "request6":
		return s.check6(run, ec, p1, p2, fail)
	}
	return "", outcome
}

func (s *ExScenario) check6(run *exRun, ec string, p1, p2 []replyMeta, fail func(string, string) (string, string)) (string, string) {
	if len(run.txs) == 0 || run.txs[0].v6 == nil {
		return fail("Y1-first", "no decodable first transmission")
	}
	first := run.txs[0].v6
	firstOf := func(list []replyMeta, types ...int) (int, int) {
		for _, r := range list {
			if !r.valid {
				continue
			}
			if len(types) == 0 {
				return r.serial, r.typ
			}
			for _, t := range types {
				if r.typ == t {
					return r.serial, r.typ
				}
			}
		}
		return -9, 0
	}
	adv, rep := int(dhcpv6.MessageTypeAdvertise), int(dhcpv6.MessageTypeReply)
	switch s.Op {
	case "solicit":
		if first.MessageType != dhcpv6.MessageTypeSolicit || len(run.txs) != 1 {
			return fail("Y1-solicit", fmt.Sprintf("Solicit transmitted %d datagrams, first %v", len(run.txs), first.MessageType))
		}
		ws, _ := firstOf(p1, adv)
		if (ws == -9) != (ec == "noresp") || (ws != -9 && (ec != "" || run.respSer != ws)) {
			return fail("Y2-solicit-pairing", fmt.Sprintf("Solicit returned %q serial %d; first ADVERTISE with the SOLICIT's id has serial %d", ec, run.respSer, ws))
		}
	case "request6":
		if first.MessageType != dhcpv6.MessageTypeRequest || len(run.txs) != 1 {
			return fail("Y3-request", fmt.Sprintf("Request transmitted %d datagrams, first %v", len(run.txs), first.MessageType))
		}
		if msg := checkRequest6(first, 200, 1); msg != "" {
			return fail("Y3-request-fields", msg)
		}
		ws, _ := firstOf(p1)
		if (ws == -9) != (ec == "noresp") || (ws != -9 && (ec != "" || run.respSer != ws)) {
			return fail("Y4-request-pairing", fmt.Sprintf("Request returned %q serial %d; first message with the REQUEST's id has serial %d", ec, run.respSer, ws))
		}
	case "rapid":
		if first.MessageType != dhcpv6.MessageTypeSolicit || first.GetOneOption(dhcpv6.OptionRapidCommit) == nil {
			return fail("Y5-rapid-solicit", "RapidSolicit's first message is not a SOLICIT with rapid commit")
		}
		ws, wt := firstOf(p1, adv, rep)
		switch {
		case ws == -9:
			if ec != "noresp" || len(run.txs) != 1 {
				return fail("Y5-rapid", fmt.Sprintf("nothing acceptable was delivered but RapidSolicit returned %q after %d transmissions", ec, len(run.txs)))
			}
		case wt == rep:
			if ec != "" || run.respSer != ws || len(run.txs) != 1 {
				return fail("Y5-rapid-reply", fmt.Sprintf("a REPLY (serial %d) answered the SOLICIT but RapidSolicit returned %q serial %d after %d transmissions", ws, ec, run.respSer, len(run.txs)))
			}
		default:
			// ADVERTISE: continues as Request(that advertise) unless the advertise lacks what a REQUEST needs
			var meta replyMeta
			for _, r := range p1 {
				if r.serial == ws {
					meta = r
				}
			}
			if meta.kind == RAdvNoCID || meta.kind == RAdvNoSID || meta.kind == RAdvNoIANA {
				if ec == "" || len(run.txs) != 1 {
					return fail("Y6-rapid-bad-advertise", fmt.Sprintf("ADVERTISE %s cannot be turned into a REQUEST but RapidSolicit returned %q after %d transmissions", rkNames[meta.kind], ec, len(run.txs)))
				}
				return "", ec
			}
			if len(run.txs) != 2 || run.txs[1].v6 == nil || run.txs[1].v6.MessageType != dhcpv6.MessageTypeRequest {
				return fail("Y6-rapid-request", fmt.Sprintf("after ADVERTISE serial %d a REQUEST must follow; saw %d transmissions", ws, len(run.txs)))
			}
			if msg := checkRequest6(run.txs[1].v6, ws, meta.server); msg != "" {
				return fail("Y3-request-fields", msg)
			}
			if run.txs[1].v6.TransactionID == first.TransactionID {
				return fail("Y6-request-xid", "REQUEST reuses the SOLICIT's transaction id")
			}
			w2, _ := firstOf(p2)
			// phase-1 leftovers carry the SOLICIT's id and can never pair with the REQUEST's fresh id
			if (w2 == -9) != (ec == "noresp") || (w2 != -9 && (ec != "" || run.respSer != w2)) {
				return fail("Y4-request-pairing", fmt.Sprintf("RapidSolicit returned %q serial %d; first message with the REQUEST's id has serial %d", ec, run.respSer, w2))
			}
		}
	}
	return "", ec
}

// checkRequest6: the REQUEST carries the advertised client id, server id and IA_NA.
func checkRequest6(rq *dhcpv6.Message, advSerial, server int) string {
	cid := rq.Options.ClientID()
	if cid == nil || !cid.Equal(&dhcpv6.DUIDLL{HWType: 1, LinkLayerAddr: clientMAC}) {
		// the advertise echoes the SOLICIT's client id (a DUID-LLT built by NewSolicit) - compare by link-layer address
		if cid == nil || !strings.Contains(cid.String(), clientMAC.String()) {
			return fmt.Sprintf("REQUEST client id %v is not the advertised one", cid)
		}
	}
	sid := rq.Options.ServerID()
	if sid == nil || !sid.Equal(duidSrv[server]) {
		return fmt.Sprintf("REQUEST server id %v, advertised %v", sid, duidSrv[server])
	}
	ia := rq.Options.OneIANA()
	if ia == nil || ia.IaId != [4]byte{1, 2, 3, byte(advSerial)} {
		return fmt.Sprintf("REQUEST IA_NA %v is not the advertised one (iaid 01 02 03 %02x)", ia, advSerial)
	}
	// the whole advertised IA_NA (both addresses and the status code), not a rebuilt subset
	if n := len(ia.Options.Options); n != 3 {
		return fmt.Sprintf("REQUEST IA_NA carries %d of the 3 advertised sub-options: %v", n, ia)
	}
	return ""
}

type exScen struct {
	s   *ExScenario
	fam string
	run *exRun
}

func (c *exScen) ID() string       { return c.s.Name }
func (c *exScen) Family() string   { return c.fam }
func (c *exScen) Describe() string { return c.s.String() }
func (c *exScen) MaxBound() int    { return c.s.Bound }
func (c *exScen) Body() func() {
	b := c.s.body(&c.run)
	return func() { detCtr = 0; b() }
}
func (c *exScen) Check(ex *vs.Exec) (string, string) { return c.s.check(c.run, ex) }

func rkSeqs(alpha []RK, n int) [][]RK {
	out := [][]RK{nil}
	prev := [][]RK{nil}
	for l := 1; l <= n; l++ {
		var next [][]RK
		for _, p := range prev {
			for _, a := range alpha {
				next = append(next, append(append([]RK{}, p...), a))
			}
		}
		out = append(out, next...)
		prev = next
	}
	return out
}

func c13Scenarios(tier string) []Scenario {
	var out []Scenario
	thorough := tier == "thorough"
	add := func(s *ExScenario) {
		s.Name = fmt.Sprintf("c13-%06d", len(out))
		if s.Bound == 0 {
			// arrival order is in the script; the order in which the caller and the receive loop get to run is not:
			// every schedule with at most one preemption (scripts of more than 8 replies: default schedule only)
			n := len(s.P1) + len(s.P2)
			switch {
			case n > 8:
				s.Bound = -1
			case thorough && n <= 3:
				s.Bound = 3
			case thorough && n <= 5:
				s.Bound = 2
			case !thorough && n <= 3:
				s.Bound = 2
			default:
				s.Bound = 1
			}
			if v := os.Getenv("VERIF_C13_BOUND"); v != "" && n <= 8 {
				s.Bound, _ = strconv.Atoi(v)
			}
		}
		out = append(out, &exScen{s: s, fam: s.Op})
	}
	a1 := []RK{ROffer1, ROffer2, ROfferNoSID, RAck1, RNak1, RWrongXid, RWrongHW, RGarbage}
	a2 := []RK{RAck1, RAck2, RNak1, RNak2, ROffer1, RWrongXid, RAckNoSID, RGarbage, RWrongHW}
	n1, n2 := 2, 3
	if thorough {
		n1 = 3
	}
	i := 0
	if thorough {
		// additionally: short first phases against every reply list of length 4
		for _, p1 := range rkSeqs(a1, 1) {
			for _, p2 := range rkSeqs(a2, 4) {
				if len(p2) == 4 {
					add(&ExScenario{Op: "request", P1: p1, P2: p2})
				}
			}
		}
	}
	for _, p1 := range rkSeqs(a1, n1) {
		for _, p2 := range rkSeqs(a2, n2) {
			s := &ExScenario{Op: "request", P1: p1, P2: p2}
			// preemption-bounded exploration on a deterministic stride
			i++
			add(s)
		}
	}
	for _, p1 := range rkSeqs(a2, 3) {
		add(&ExScenario{Op: "renew", P1: p1})
	}
	for _, p1 := range rkSeqs(a2, 2) {
		add(&ExScenario{Op: "inform", P1: p1})
		add(&ExScenario{Op: "renew", P1: p1, Fault: true})
	}
	add(&ExScenario{Op: "release"})
	// reply sizes: the plain successful exchanges with replies of every size up to the 1500 bytes the clients receive
	szs := []int{576, 1024, 1499, 1500}
	if thorough {
		szs = nil
		for n := 320; n <= 1500; n += 1 {
			szs = append(szs, n)
		}
	}
	for _, n := range szs {
		add(&ExScenario{Op: "request", P1: []RK{ROffer1}, P2: []RK{RAck1}, Size: n, Bound: 1})
		add(&ExScenario{Op: "renew", P1: []RK{RAck1}, Size: n, Bound: 1})
		add(&ExScenario{Op: "inform", P1: []RK{RAck1}, Size: n, Bound: 1})
	}
	for _, p1 := range rkSeqs([]RK{RAck1, RNak1, RAck2, RGarbage}, 2) {
		add(&ExScenario{Op: "renew+release", P1: p1})
	}
	// bursts: the completing reply sits behind k replies that must be ignored (fills the per-transaction buffer)
	for _, k := range []int{4, 5, 6, 7, 12} {
		for _, ign := range []RK{RAck2, ROffer1, RWrongHW} {
			var p2 []RK
			for i := 0; i < k; i++ {
				p2 = append(p2, ign)
			}
			add(&ExScenario{Op: "request", P1: []RK{ROffer1}, P2: append(append([]RK{}, p2...), RAck1), Bound: 1})
			add(&ExScenario{Op: "request", P1: append(append([]RK{}, p2...), ROffer1), P2: []RK{RAck1}})
			add(&ExScenario{Op: "renew", P1: append(append([]RK{}, p2...), RAck1)})
		}
	}
	a6 := []RK{RAdv1, RAdv2, RReply, RReplyRapid, RWrongXid6, RRelay, RGarbage6, ROther6, RAdvNoCID, RAdvNoSID, RAdvNoIANA}
	n6 := 2
	if thorough {
		n6 = 3
	}
	for _, p1 := range rkSeqs(a6, 3) {
		add(&ExScenario{Op: "solicit", P1: p1})
		add(&ExScenario{Op: "request6", P1: p1})
	}
	// bursts: the completing message sits behind k messages with the right id that complete nothing
	for _, k := range []int{4, 5, 6, 7, 12} {
		for _, ign := range []RK{ROther6, RAdvNoCID} {
			var pre []RK
			for i := 0; i < k; i++ {
				pre = append(pre, ign)
			}
			add(&ExScenario{Op: "solicit", P1: append(append([]RK{}, pre...), RAdv1), Bound: 1})
			add(&ExScenario{Op: "request6", P1: append(append([]RK{}, pre...), RReply), Bound: 1})
			add(&ExScenario{Op: "rapid", P1: append(append([]RK{}, pre...), RReplyRapid), Bound: 1})
			add(&ExScenario{Op: "rapid", P1: []RK{RAdv1}, P2: append(append([]RK{}, pre...), RReply), Bound: 1})
		}
	}
	for _, n := range szs {
		add(&ExScenario{Op: "solicit", P1: []RK{RAdv1}, Size: n, Bound: 1})
		add(&ExScenario{Op: "request6", P1: []RK{RReply}, Size: n, Bound: 1})
		add(&ExScenario{Op: "rapid", P1: []RK{RReplyRapid}, Size: n, Bound: 1})
		add(&ExScenario{Op: "rapid", P1: []RK{RAdv1}, P2: []RK{RReply}, Size: n, Bound: 1})
	}
	j := 0
	for _, p1 := range rkSeqs(a6, n6) {
		for _, p2 := range rkSeqs(a6[:8], 2) {
			s := &ExScenario{Op: "rapid", P1: p1, P2: p2}
			j++
			add(s)
		}
	}
	return out
}
