package main

import (
	"fmt"
	"os"
	"strconv"
)

// ---- C10: a client call only returns a response to its own transaction ----

// all sequences of length <= n over the datagram alphabet, arriving at the given instants
func dgSequences(alpha []DgSpec, n int) [][]DgSpec {
	out := [][]DgSpec{nil}
	prev := [][]DgSpec{nil}
	for l := 1; l <= n; l++ {
		var next [][]DgSpec
		for _, p := range prev {
			for _, a := range alpha {
				q := append(append([]DgSpec{}, p...), a)
				next = append(next, q)
			}
		}
		out = append(out, next...)
		prev = next
	}
	return out
}

func c10Scenarios(tier string) []Scenario {
	var out []Scenario
	thorough := tier == "thorough"
	add := func(s *ClientScenario, fam string) {
		s.Rules = "R"
		s.Name = fmt.Sprintf("c10-%05d", len(out))
		out = append(out, &clientScen{s: s, fam: fam + "-" + fam46(s.V6)})
	}
	T := int64(3)
	bound := 2
	seqLen := 3
	if thorough {
		bound = 3
		seqLen = 4
	}
	for _, v6 := range []bool{false, true} {
		// (1) one caller, every datagram stream of length <= seqLen over the full alphabet,
		// arrival pattern: all at t=1 / spread 0,1,2,.. / all at the deadline
		alpha := []DgSpec{{Kind: DgGood, ID: 0}, {Kind: DgBad, ID: 0}, {Kind: DgGood, ID: 1}, {Kind: DgWrongHW, ID: 0}, {Kind: DgRequestOp, ID: 0}, {Kind: DgOddOp, ID: 0}, {Kind: DgGarbage}}
		for _, seq := range dgSequences(alpha, seqLen) {
			for pat := 0; pat < 3; pat++ {
				if len(seq) == 0 && pat > 0 {
					continue
				}
				for _, m := range []MatchKind{MatchNil, MatchGood} {
					d := append([]DgSpec{}, seq...)
					for i := range d {
						switch pat {
						case 0:
							d[i].At = 1
						case 1:
							d[i].At = int64(i)
						case 2:
							d[i].At = T
						}
					}
					b := bound
					if len(d) >= 3 {
						b--
					}
					add(&ClientScenario{V6: v6, T: T, Tries: 2, BufCap: 1, CloseAt: -1, Bound: b,
						Calls: []CallSpec{{ID: 0, Match: m, CancelAt: -1, After: -1}}, Dgs: d}, "one-caller")
				}
			}
		}
		// (1b) reply sizes: one caller, one qualifying reply of every size a sender may legitimately use, up to the
		// 1500 bytes the clients announce/receive (a reply that exactly fills the receive buffer is still complete)
		sizes := []int{576, 1024, 1400, 1498, 1499, 1500}
		if thorough {
			sizes = nil
			for n := 400; n <= 1500; n++ {
				sizes = append(sizes, n)
			}
		}
		for _, n := range sizes {
			for _, lead := range [][]DgSpec{nil, {{Kind: DgBad, ID: 0, At: 1, Size: n}}} {
				d := append(append([]DgSpec{}, lead...), DgSpec{Kind: DgGood, ID: 0, At: 1, Size: n})
				add(&ClientScenario{V6: v6, T: T, Tries: 1, BufCap: 1, CloseAt: -1, Bound: 1,
					Calls: []CallSpec{{ID: 0, Match: MatchGood, CancelAt: -1, After: -1}}, Dgs: d}, "reply-sizes")
			}
		}
		// (2) two callers, distinct ids: streams over replies for both ids
		alpha2 := []DgSpec{{Kind: DgGood, ID: 0}, {Kind: DgBad, ID: 0}, {Kind: DgGood, ID: 1}, {Kind: DgBad, ID: 1}, {Kind: DgGarbage}}
		for _, seq := range dgSequences(alpha2, seqLen) {
			for pat := 0; pat < 2; pat++ {
				if len(seq) == 0 && pat > 0 {
					continue
				}
				for _, ms := range [][2]MatchKind{{MatchNil, MatchNil}, {MatchGood, MatchGood}, {MatchNone, MatchNil}} {
					for _, cap_ := range []int{0, 1, -1} {
						if cap_ != 1 && (len(seq) != seqLen || pat != 0) && !thorough {
							continue
						}
						d := append([]DgSpec{}, seq...)
						for i := range d {
							if pat == 0 {
								d[i].At = 1
							} else {
								d[i].At = int64(i)
							}
						}
						b := bound
						if len(d) >= 3 {
							b--
						}
						add(&ClientScenario{V6: v6, T: T, Tries: 1, BufCap: cap_, CloseAt: -1, Bound: b,
							Calls: []CallSpec{{ID: 0, Match: ms[0], CancelAt: -1, After: -1}, {ID: 1, Match: ms[1], CancelAt: -1, After: -1}}, Dgs: d}, "two-callers-distinct")
					}
				}
			}
		}
		// (3) two and three callers with colliding ids
		alpha3 := []DgSpec{{Kind: DgGood, ID: 0}, {Kind: DgBad, ID: 0}}
		for _, seq := range dgSequences(alpha3, seqLen) {
			for pat := 0; pat < 3; pat++ {
				for _, ms := range [][2]MatchKind{{MatchNil, MatchNil}, {MatchGood, MatchGood}, {MatchGood, MatchNil}} {
					for _, start2 := range []int64{0, 1} {
						for _, tries := range []int{1, 2} {
							d := append([]DgSpec{}, seq...)
							for i := range d {
								switch pat {
								case 0:
									d[i].At = 1
								case 1:
									d[i].At = int64(i)
								case 2:
									d[i].At = T
								}
							}
							add(&ClientScenario{V6: v6, T: T, Tries: tries, BufCap: 1, CloseAt: -1, Bound: bound,
								Calls: []CallSpec{{ID: 0, Match: ms[0], CancelAt: -1, After: -1}, {ID: 0, Match: ms[1], StartAt: start2, CancelAt: -1, After: -1}}, Dgs: d}, "two-callers-same-id")
						}
					}
				}
			}
		}
		for _, seq := range dgSequences(alpha2[:3], 2) {
			d := append([]DgSpec{}, seq...)
			for i := range d {
				d[i].At = 1
			}
			add(&ClientScenario{V6: v6, T: T, Tries: 1, BufCap: 1, CloseAt: -1, Bound: bound - 1,
				Calls: []CallSpec{{ID: 0, Match: MatchNil, CancelAt: -1, After: -1}, {ID: 0, Match: MatchNil, CancelAt: -1, After: -1}, {ID: 1, Match: MatchNil, CancelAt: -1, After: -1}}, Dgs: d}, "three-callers")
		}
		// (4) sequential reuse of an id with a late datagram for the first call
		for _, at := range []int64{0, 1, 2, 3, 4} {
			add(&ClientScenario{V6: v6, T: T, Tries: 1, BufCap: 1, CloseAt: -1, Bound: bound,
				Calls: []CallSpec{{ID: 0, Match: MatchGood, CancelAt: -1, After: -1}, {ID: 0, Match: MatchGood, CancelAt: -1, After: 0}},
				Dgs:   []DgSpec{{At: 1, Kind: DgGood}, {At: at, Kind: DgBad}, {At: at + 1, Kind: DgGood}}}, "reuse")
		}
		// (4b) duplicates: byte-identical datagrams, before and during a call
		alphaD := []DgSpec{{Kind: DgGood, ID: 0}, {Kind: DgBad, ID: 0}, {Kind: DgDup}}
		for _, seq := range dgSequences(alphaD, seqLen+1) {
			if len(seq) == 0 || seq[0].Kind == DgDup {
				continue
			}
			for _, start := range []int64{0, 1, 2} {
				for _, m := range []MatchKind{MatchNil, MatchGood} {
					d := append([]DgSpec{}, seq...)
					for i := range d {
						d[i].At = int64(i)
					}
					add(&ClientScenario{V6: v6, T: 6, Tries: 1, BufCap: 1, CloseAt: -1, Bound: bound - 1,
						Calls: []CallSpec{{ID: 0, Match: m, StartAt: start, CancelAt: -1, After: -1}}, Dgs: d}, "duplicates")
				}
			}
		}
		// (4c) a transmission fails: the id must stay usable and later traffic for it must not wedge anything
		for _, burst := range []int{0, 1, 3, 7} {
			for fwi, fw := range [][]int{{0}, {1}, {0, 1}, {0}, {1}} {
				var d []DgSpec
				for i := 0; i < burst; i++ {
					d = append(d, DgSpec{At: 1, Kind: DgBad, ID: 0})
				}
				d = append(d, DgSpec{At: 8, Kind: DgGood, ID: 0}, DgSpec{At: 8, Kind: DgGood, ID: 1})
				add(&ClientScenario{V6: v6, T: T, Tries: 2, BufCap: -1, CloseAt: -1, Bound: bound - 1, FailWrites: fw, FailKind: fwi / 3,
					Calls: []CallSpec{{ID: 0, Match: MatchGood, CancelAt: -1, After: -1}, {ID: 0, Match: MatchGood, StartAt: 7, CancelAt: -1, After: 0},
						{ID: 1, Match: MatchNil, StartAt: 7, CancelAt: -1, After: -1}}, Dgs: d}, "write-fault")
			}
		}
		// (4d) logging configurations: the debug logger prints every message, dropped packets are logged;
		// streams mixing undecodable / foreign datagrams with long replies (logging must not disturb routing)
		alphaL := []DgSpec{{Kind: DgGood, ID: 0}, {Kind: DgBad, ID: 0}, {Kind: DgGood, ID: 1}, {Kind: DgGarbage}, {Kind: DgRequestOp, ID: 0}}
		for _, seq := range dgSequences(alphaL, seqLen) {
			if len(seq) == 0 {
				continue
			}
			for _, m := range []MatchKind{MatchNil, MatchGood} {
				d := append([]DgSpec{}, seq...)
				for i := range d {
					d[i].At = int64(i)
				}
				for lk := 0; lk < 3; lk++ {
					if lk == 2 && v6 {
						continue
					}
					add(&ClientScenario{V6: v6, T: T + 1, Tries: 1, BufCap: 1, CloseAt: -1, Bound: 1, Log: true, LogKind: lk,
						Calls: []CallSpec{{ID: 0, Match: m, CancelAt: -1, After: -1}}, Dgs: append([]DgSpec{}, d...)}, "logging")
				}
			}
		}
		// (4c') the library's own matcher constructor, every call passing the same slice (with spare capacity) as its tail:
		// what one call's matcher accepts must not depend on the matchers built for other calls
		for _, seq := range dgSequences(alpha2[:4], 3) {
			for _, ms := range [][2]MatchKind{{MatchLibGood, MatchLibBad}, {MatchLibBad, MatchLibGood}, {MatchLibGood, MatchLibGood}} {
				d := append([]DgSpec{}, seq...)
				for i := range d {
					d[i].At = 1
				}
				add(&ClientScenario{V6: v6, T: T, Tries: 1, BufCap: -1, CloseAt: -1, Bound: 1,
					Calls: []CallSpec{{ID: 0, Match: ms[0], CancelAt: -1, After: -1}, {ID: 1, Match: ms[1], CancelAt: -1, After: -1}}, Dgs: d}, "library-matchers")
			}
		}
		// (4d') DHCPv4: the hardware address the client answers for comes from WithHWAddr, not from the constructor;
		// DHCPv6: the connection comes from WithConn
		{
			for _, seq := range dgSequences(alpha, 2) {
				d := append([]DgSpec{}, seq...)
				for i := range d {
					d[i].At = 1
				}
				add(&ClientScenario{V6: v6, HWOpt: true, T: T, Tries: 1, BufCap: 1, CloseAt: -1, Bound: 1,
					Calls: []CallSpec{{ID: 0, Match: MatchGood, CancelAt: -1, After: -1}}, Dgs: d}, "configured-by-option")
			}
		}
		// (4e) the production stack: the DHCPv4 client on top of the raw broadcast connection (frames in, frames out);
		// concurrent callers transmit through the same connection object
		if !v6 {
			for _, seq := range dgSequences(alpha2, 2) {
				d := append([]DgSpec{}, seq...)
				for i := range d {
					d[i].At = 1
				}
				add(&ClientScenario{V6: false, Raw: true, T: T, Tries: 2, BufCap: 1, CloseAt: -1, Bound: bound,
					Calls: []CallSpec{{ID: 0, Match: MatchNil, CancelAt: -1, After: -1}, {ID: 1, Match: MatchGood, CancelAt: -1, After: -1}}, Dgs: d}, "raw-conn")
			}
			add(&ClientScenario{V6: false, Raw: true, T: T, Tries: 1, BufCap: -1, CloseAt: -1, Bound: 1,
				Calls: []CallSpec{{ID: 0, Match: MatchNil, CancelAt: -1, After: -1}, {ID: 1, Match: MatchNil, CancelAt: -1, After: -1}, {ID: 2, Match: MatchNil, CancelAt: -1, After: -1}, {ID: 0, Match: MatchNil, CancelAt: -1, After: -1}},
				Dgs:   []DgSpec{{At: 1, Kind: DgGood, ID: 0}, {At: 1, Kind: DgGood, ID: 1}, {At: 1, Kind: DgGood, ID: 2}}}, "raw-conn")
		}
		// (4f) two clients in one process, each on its own connection, with calls that carry the same transaction id:
		// every client routes within its own connection only
		for _, seq := range dgSequences(alpha2[:2], 1) {
			d := append([]DgSpec{}, seq...)
			for i := range d {
				d[i].At = 1
			}
			add(&ClientScenario{V6: v6, Twin: true, T: T, Tries: 1, BufCap: 1, CloseAt: -1, Bound: 1,
				Calls: []CallSpec{{ID: 0, Match: MatchNil, CancelAt: -1, After: -1}}, Dgs: d}, "two-clients")
		}
		// (5) many callers: 4 (quick) / 5 (thorough) concurrent callers, two of them colliding
		{
			nc := 4
			if thorough {
				nc = 5
			}
			var calls []CallSpec
			var dgs []DgSpec
			for i := 0; i < nc; i++ {
				calls = append(calls, CallSpec{ID: i % (nc - 1), Match: MatchNil, CancelAt: -1, After: -1})
			}
			for i := 0; i < nc-1; i++ {
				dgs = append(dgs, DgSpec{At: 1, Kind: DgGood, ID: i})
			}
			add(&ClientScenario{V6: v6, T: T, Tries: 1, BufCap: -1, CloseAt: -1, Bound: 1, Calls: calls, Dgs: dgs}, "many-callers")
			// towards the statement's upper end (8 callers): 6 concurrent callers (ids 0..4, the last one colliding with id 0),
			// one reply per id, every schedule without preemption (all orders in which the callers and the receive loop
			// take their turns). Measured: 5 callers 1.7e4 executions, 6 callers 6.0e5 (2 min), 7 would be ~2.5e7, 8 ~1e9:
			// without a partial-order reduction the stateless search stops here (VERIF_C10_N8=<n> runs another size).
			if n8 := os.Getenv("VERIF_C10_N8"); n8 != "" || thorough {
				nc := 6
				if n8 != "" {
					nc, _ = strconv.Atoi(n8)
				}
				var calls8 []CallSpec
				var dgs8 []DgSpec
				for i := 0; i < nc; i++ {
					calls8 = append(calls8, CallSpec{ID: i % (nc - 1), Match: MatchNil, CancelAt: -1, After: -1})
				}
				for i := 0; i < nc-1; i++ {
					dgs8 = append(dgs8, DgSpec{At: 1, Kind: DgGood, ID: i})
				}
				add(&ClientScenario{V6: v6, T: T, Tries: 1, BufCap: -1, CloseAt: -1, Bound: 0, Calls: calls8, Dgs: dgs8}, "six-callers-no-preemption")
			}
		}
	}
	return out
}
