#!/usr/bin/env python3
"""Generate /verif/MANIFEST.json from the table below (kept in one place so it stays valid)."""
import json, sys, os
ROOT = os.path.dirname(os.path.abspath(__file__))
props = [json.loads(l) for l in open(os.path.join(ROOT, "properties.jsonl"))]
ids = [p["id"] for p in props]

E1 = "seqmc"
E2 = "schedmc"
# id -> (engine, category, technique, text, note, design_ref)
claimed = {}
def claim(i, engine, cat, tech, text, note, ref):
    claimed[i] = dict(engine=engine, cat=cat, tech=tech, text=text, note=note, ref=ref)

exec(open(os.path.join(ROOT, "manifest_claims.py")).read())

checks = []
for i in ids:
    if i not in claimed: continue
    c = claimed[i]
    checks.append({
        "property_id": i,
        "quick_cmd": f"./check {i} quick",
        "thorough_cmd": f"./check {i} thorough",
        "evidence_file": f"/verif/evidence/{i}.json",
        "replay_cmd_template": f"./check {i} quick --replay {{path}}",
        "engine": c["engine"],
        "level_claimed": {"category": c["cat"], "text": c["text"], "design_ref": c["ref"]},
        "level_note": c["note"],
        "technique": c["tech"],
    })
na = [{"property_id": i, "reason": "check not built yet in this session (work in progress; see DESIGN.md section 5 for the planned bounded-exhaustive check)"} for i in ids if i not in claimed]
m = {
    "version": 1,
    "setup_cmd": "./setup.sh",
    "hooks": {
        "guard": "verif",
        "enable": "no hook commits in /repo: E1 links the working tree through a go.mod replace; E2 regenerates an instrumented copy of the client/server packages from the working tree on every run (engine/instrument) and builds it with go build -overlay",
        "baseline_off_cmd": "cd /repo && go test -vet=off -count=1 -timeout 25m ./...",
        "source_commits": [],
        "add_only": True,
    },
    "engines": [
        {"name": E1, "path": "/verif/seq", "serves_properties": [i for i in ids if claimed.get(i, {}).get("engine") == E1],
         "kind_free_text": "bounded-exhaustive enumeration of inputs / operation sequences on the real library against independent reference models (explicit-state search for operation sequences)"},
        {"name": E2, "path": "/verif/conc", "serves_properties": [i for i in ids if claimed.get(i, {}).get("engine") == E2],
         "kind_free_text": "stateless model checker for Go concurrency: source rewritten onto a cooperative scheduler shim, preemption-bounded DFS over all schedules under virtual time, vector-clock race monitor"},
    ],
    "checks": checks,
    "not_applicable": na,
    "notes": "See DESIGN.md. Exit codes: 0 held, 1 VIOLATION, 2 infrastructure error (never a verdict).",
}
json.dump(m, open(os.path.join(ROOT, "MANIFEST.json"), "w"), indent=1)
print("claimed:", sorted(claimed), "not_applicable:", [x["property_id"] for x in na])
