claim("C04", E1, "exploration", "bounded-exhaustive input enumeration vs independent reference decoder",
      "Every options area over a 7-symbol code/length alphabet up to length 8 (quick) / 10 (thorough), every truncation, every cookie/option/header byte substitution, every hlen, every NUL position: library verdict and every decoded field must equal the RFC 2131/2132/3396 reference decoder's. Exhaustive inside that scope; the scope holds one symbol per branch of the decoder.",
      "trusted: the reference decoder seq/ref/v4ref (stdlib only, written from the RFCs); small-scope hypothesis for byte values outside the alphabets",
      "DESIGN.md 5/C04")
