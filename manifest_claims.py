claim("C04", E1, "exploration", "bounded-exhaustive input enumeration vs independent reference decoder",
      "Every options area over a 7-symbol code/length alphabet up to length 8 (quick) / 10 (thorough), every truncation, every cookie/option/header byte substitution, every hlen, every NUL position: library verdict and every decoded field must equal the RFC 2131/2132/3396 reference decoder's. Exhaustive inside that scope; the scope holds one symbol per branch of the decoder.",
      "trusted: the reference decoder seq/ref/v4ref (stdlib only, written from the RFCs); small-scope hypothesis for byte values outside the alphabets",
      "DESIGN.md 5/C04")
claim("C15", E1, "exploration", "bounded-exhaustive input and modifier-list enumeration vs reference builder model",
      "Full product of request/offer/ack shapes (opcode, flags, giaddr, hwtype, hlen, options 82/61/54/55/50 in 5 states each, yiaddr, ciaddr; hand-built and after a wire trip) through all six builders, and all modifier lists of length <=3 (quick) / <=4 (thorough) over 12 exported With* modifiers, compared with an independent plain-struct reference (RFC defaults, then fold of re-implemented modifiers).",
      "trusted: seq/ref/v4build (stdlib only); only what the statement asserts is compared (Appendix E); present-but-empty options two-valued (DESIGN 8a-3)",
      "DESIGN.md 5/C15, Appendix E")
claim("C16", E1, "exploration", "bounded-exhaustive relay-chain and message enumeration vs list-of-levels reference model",
      "Every relay chain depth 1..16, every subset of interface-id/remote-id per level up to depth 3 (quick) / 5 (thorough), 4 relay-type patterns, 704 inner messages (11 types x 64 option subsets), as built and after a wire trip: encapsulate/decapsulate identity, hop counts, inner-message lookup, index decapsulation, relay-reply construction and the advertise/request/reply builders against an independent list-of-levels model with its own RFC 8415 encoder/decoder.",
      "trusted: seq/ref/v6chain (stdlib only); undocumented index ranges and mixed FORW/REPL chains are asserted for no-panic only (see DESIGN 8a)",
      "DESIGN.md 5/C16, Appendix E")
claim("C17", E1, "exploration", "bounded-exhaustive raw-value enumeration per typed accessor vs RFC reference interpretation",
      "For each of 34 typed accessors: all byte strings of length <=2, lengths 0..64 x 6 contents, all strings of length 3..5 over a boundary alphabet, absent/nil cases, decoys under every other code, direct and after a wire trip; plus every exported typed constructor over its boundary domain read back. Oracle: independent per-option RFC interpretation with 'malformed => documented default'.",
      "trusted: seq/ref/v4opt (stdlib only, RFC 2132/3442/3004/3925/3046/4578/3397/8925/2563); zero-length == absent, nil == empty list (DESIGN 8a-4)",
      "DESIGN.md 5/C17, Appendix C")
claim("C18", E1, "exploration", "bounded-exhaustive payload/frame-sequence enumeration vs RFC 791/768/1071 reference",
      "Write side: every payload length 0..1500 x 8 carry-stressing patterns x address/port pairs, each frame verified by an independent IPv4/UDP parser and checksum verifier. Read side: all sequences of length <=2 (quick) / <=3 (thorough) over a 92-frame alphabet (valid, IP options, padding, bad total length, non-IPv4, non-UDP, truncations, other ports/addresses) x bound-address kinds x buffer sizes, against a reference filter.",
      "trusted: seq/ref/ipref (stdlib only; self-tested on RFC 1071 known answers); incoming checksums and UDP-length consistency are not demanded (statement silent)",
      "DESIGN.md 5/C18")
claim("C19", E1, "exploration", "bounded-exhaustive byte-string / name-list / edit enumeration vs RFC 1035 reference decoder",
      "All byte strings over a 10-symbol length/letter/pointer alphabet up to length 7 (quick) / 8 (thorough), structural 63/64/255-byte and pointer-offset cases, all name lists over a label set up to 3x3 (quick) / 4x4 (thorough), every single edit (and a second edit) of every accepted set; four-valued reference classification (MUST-ACCEPT / MAY-REJECT / REJECT / UNSPECIFIED).",
      "trusted: seq/ref/labelref (stdlib only, RFC 1035 3.1/4.1.4, RFC 4704 4.2); UNSPECIFIED classes listed in DESIGN 2.2 checked for stability only",
      "DESIGN.md 5/C19")
