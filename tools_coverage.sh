#!/bin/bash
# Coverage audit (not a registered check): which statements of the library do the quick checks execute at all?
# usage: tools_coverage.sh <scratch dir outside /repo and /verif>      (removes nothing; delete the scratch dir afterwards)
set -eu
S=${1:?scratch dir}; mkdir -p "$S/covd" "$S/covd2" "$S/root" "$S/repo"
export GOFLAGS=-mod=mod GOPROXY=off GOSUMDB=off GOTOOLCHAIN=local
V=$(cd "$(dirname "$0")" && pwd); cp "$V/known_findings.txt" "$S/root/"
L=github.com/insomniacslk/dhcp
cp "$V/seq/go.mod" "$S/seq.mod"; cp /repo/go.sum "$S/seq.sum"
(cd "$V/seq" && go build -modfile="$S/seq.mod" -cover -coverpkg=./cmd/seqmc,$L/dhcpv4,$L/dhcpv6,$L/rfc1035label,$L/iana,$L/dhcpv4/nclient4,$L/dhcpv4/ztpv4,$L/dhcpv6/ztpv6 -o "$S/seqmc" ./cmd/seqmc)
for id in C01 C02 C03 C04 C05 C06 C07 C08 C15 C16 C17 C18 C19 C20; do GOCOVERDIR="$S/covd" VERIF_ROOT="$S/root" "$S/seqmc" $id quick > "$S/$id.log" 2>&1 || echo "$id exit $?"; done
(cd "$V/seq" && go tool covdata percent -i="$S/covd" | grep "$L")
# E2: materialise the instrumenter's overlay (-cover and -overlay do not combine)
(cd "$V/engine/instrument" && go build -o "$S/instrument" .)
"$S/instrument" -repo /repo -shim "$V/engine/shim" -out "$S/inst" dhcpv4/nclient4 dhcpv6/nclient6 dhcpv4/server4 dhcpv6/server6 > "$S/inst.log" 2>&1
(cd /repo && git archive HEAD | tar -x -C "$S/repo")
python3 - "$S" <<'PY'
import json,os,shutil,sys
S=sys.argv[1]
for dst,src in json.load(open(S+'/inst/overlay.json'))['Replace'].items():
    d=S+'/repo/'+dst[len('/repo/'):]
    os.makedirs(os.path.dirname(d),exist_ok=True)
    if src: shutil.copy(src,d)
    elif os.path.exists(d): os.remove(d)
PY
sed "s#=> /repo#=> $S/repo#" "$V/conc/go.mod" > "$S/conc.mod"; cp /repo/go.sum "$S/conc.sum"
(cd "$V/conc" && go build -modfile="$S/conc.mod" -cover -coverpkg=.,$L/dhcpv4/nclient4,$L/dhcpv6/nclient6,$L/dhcpv4/server4,$L/dhcpv6/server6 -o "$S/schedmc" .)
for id in C10 C11 C12 C13 C14; do GOCOVERDIR="$S/covd2" VERIF_ROOT="$S/root" VERIF_FREERACE=skipped "$S/schedmc" $id quick > "$S/$id.log" 2>&1 || echo "$id exit $?"; done
(cd "$V/conc" && go tool covdata percent -i="$S/covd2" | grep "$L"; go tool covdata func -i="$S/covd2" | grep "$L" | awk '$NF=="0.0%"')
(cd "$V/seq" && go tool covdata func -i="$S/covd" | grep "$L" | awk '$NF=="0.0%"')
